#!/bin/bash
# usage: run_mutant.sh <name> <file> <python-regex> <replacement> [count]
# One-regex mutant of /repo for C15: scratch worktree of HEAD, plus /verif/fixes/C15-*.patch when HEAD does not
# contain them yet (the mutants are judged on the repaired tree; otherwise finding C15-torn-tail-short-header would
# "kill" every one of them), mutation, quick check, clean-up. TIER=thorough VERIF_SCALE=0.1 are passed through.
set -u
NAME=$1; FILE=$2; PAT=$3; REP=$4; CNT=${5:-1}
WT=/tmp/mut-C15-$NAME
OUT=/tmp/mutout-C15-$NAME
git -C /repo worktree remove --force $WT >/dev/null 2>&1
git -C /repo worktree add --detach $WT HEAD >/dev/null 2>&1 || { echo "worktree failed"; exit 2; }
for p in /verif/fixes/C15-*.patch; do
  if git -C $WT apply --check $p 2>/dev/null; then git -C $WT apply $p; fi
done
python3 - "$WT/$FILE" "$PAT" "$REP" "$CNT" <<'PY'
import re,sys
p,pat,rep,cnt=sys.argv[1],sys.argv[2],sys.argv[3],int(sys.argv[4])
s=open(p).read()
n,k=re.subn(pat,rep,s,count=cnt,flags=re.S)
if k!=cnt: print("MUTATION APPLIED %d TIMES, WANTED %d"%(k,cnt)); sys.exit(3)
open(p,'w').write(n)
PY
[ $? -ne 0 ] && { git -C /repo worktree remove --force $WT; exit 3; }
(cd $WT && git diff --stat -- $FILE | tail -1)
VERIF_REPO=$WT VERIF_OUT=$OUT /verif/check C15 --tier ${TIER:-quick} > $OUT.log 2>&1
rc=$?
grep -E "^\s+c15_test.go:[0-9]+: |^\s+(frames|regress)_test.go:[0-9]+: |VIOLATION|INCONCLUSIVE|BUILD-FAILED|tier=" $OUT.log | grep -v "rapid\] draw" | grep -v "crash budget" | cut -c1-420 | head -${LINES_SHOWN:-6}
git -C /repo worktree remove --force $WT
ALT=alt-$(python3 -c "import hashlib,sys;print(hashlib.sha1(sys.argv[1].encode()).hexdigest()[:10])" $WT)
rm -rf $OUT $OUT.log /verif/build/$ALT
echo "mutant C15/$NAME rc=$rc"
