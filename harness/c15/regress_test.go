package c15

import (
	"bytes"
	"fmt"
	"io"
	"os"
	"path/filepath"
	"reflect"
	"testing"
	"testing/iotest"
	"time"

	"github.com/tendermint/tendermint/consensus"
	tmos "github.com/tendermint/tendermint/libs/os"

	"verif/lib"
)

// TestRegressShortTornTail replays finding C15-torn-tail-short-header without the property-testing library.
//
// A crash in the middle of a write leaves the first k bytes of a record at the end of the head file. The node
// restarts (the WAL part of consensus.State.OnStart: open, read from the previous height's end marker to the end as
// catchupReplay does, on DataCorruptionError stop / back up / repairWalFile / reopen), writes its own vote and the
// height's end marker with WriteSync, stops, and restarts again. Every record whose WriteSync returned nil must be
// returned by the next reader. With k = 1..3 the decoder used to report a clean io.EOF (a partly read checksum
// field was not told apart from "no more records"), no repair happened, the new records were appended behind the
// torn bytes and no reader could decode them.
func TestRegressShortTornTail(t *testing.T) {
	for _, k := range []int{1, 2, 3, 4, 7, 8, 9, 30} {
		k := k
		t.Run(fmt.Sprintf("remnant=%d", k), func(t *testing.T) {
			dir, err := os.MkdirTemp(scratch, "c15-regress-")
			if err != nil {
				t.Fatalf("VERIF-INFRA: %v", err)
			}
			defer os.RemoveAll(dir)
			path := filepath.Join(dir, "wal")
			open := func() *consensus.BaseWAL {
				w, err := consensus.NewWAL(path)
				if err != nil {
					t.Fatalf("VERIF-INFRA: %v", err)
				}
				if err := w.Start(); err != nil {
					t.Fatalf("start: %v", err)
				}
				return w
			}
			stop := func(w *consensus.BaseWAL) {
				if err := w.Stop(); err != nil {
					t.Fatalf("stop: %v", err)
				}
				w.Wait()
				_ = w.Group().Head.Close()
			}
			// catchupReplay(csHeight)'s reads
			catchup := func(w *consensus.BaseWAL, csHeight int64) error {
				opt := &consensus.WALSearchOptions{IgnoreDataCorruptionErrors: true}
				rd, found, err := w.SearchForEndHeight(csHeight, opt)
				if err != nil {
					return err
				}
				if rd != nil {
					rd.Close()
				}
				if found {
					return fmt.Errorf("wal should not contain #ENDHEIGHT %d", csHeight)
				}
				rd, found, err = w.SearchForEndHeight(csHeight-1, opt)
				if err != nil {
					return err
				}
				if !found {
					return fmt.Errorf("cannot replay height %d", csHeight)
				}
				defer rd.Close()
				if _, term := drain(rd); term != io.EOF {
					return term
				}
				return nil
			}
			// OnStart's loop
			startup := func(csHeight int64) *consensus.BaseWAL {
				w := open()
				repaired := false
				for {
					err := catchup(w, csHeight)
					if err == nil || !consensus.IsDataCorruptionError(err) {
						return w
					}
					if repaired {
						t.Fatalf("still corrupt after the repair: %v", err)
					}
					stop(w)
					repaired = true
					if err := tmos.CopyFile(path, path+".CORRUPTED"); err != nil {
						t.Fatalf("VERIF-INFRA: %v", err)
					}
					if err := consensus.VerifC15RepairWalFile(path+".CORRUPTED", path); err != nil {
						t.Fatalf("repair: %v", err)
					}
					w = open()
				}
			}

			ts := time.Unix(1_700_000_000, 0).UTC()
			peerVote := mkVote(1, 2, 0, 1, true, ts, "peer")
			ownVote := mkVote(2, 2, 0, 1, true, ts, "")
			// height 1 ends, height 2 begins
			w := startup(1)
			for _, m := range []consensus.WALMessage{consensus.EndHeightMessage{Height: 1}, peerVote} {
				if err := w.WriteSync(m); err != nil {
					t.Fatal(err)
				}
			}
			stop(w)
			// the crash: the first k bytes of the next record made it to the disk
			next, err := encodeAt(ts, mkProposal(3, 2, 0, -1, ts, "peer"))
			if err != nil {
				t.Fatal(err)
			}
			f, err := os.OpenFile(path, os.O_WRONLY|os.O_APPEND, 0o600)
			if err != nil {
				t.Fatal(err)
			}
			if _, err := f.Write(next[:k]); err != nil {
				t.Fatal(err)
			}
			f.Close()

			w = startup(2)
			acked := []consensus.WALMessage{ownVote, consensus.EndHeightMessage{Height: 2}}
			for _, m := range acked {
				if err := w.WriteSync(m); err != nil {
					t.Fatal(err)
				}
			}
			stop(w)

			w = startup(3)
			defer stop(w)
			g := w.Group()
			gr, err := g.NewReader(g.MinIndex())
			if err != nil {
				t.Fatal(err)
			}
			out, term := drain(gr)
			gr.Close()
			want := []consensus.WALMessage{consensus.EndHeightMessage{Height: 0}, consensus.EndHeightMessage{Height: 1}, peerVote, ownVote,
				consensus.EndHeightMessage{Height: 2}}
			var got []consensus.WALMessage
			for _, m := range out {
				got = append(got, m.Msg)
			}
			rd, found, serr := w.SearchForEndHeight(2, &consensus.WALSearchOptions{})
			if rd != nil {
				rd.Close()
			}
			lib.Case("TestRegressShortTornTail", lib.FP(k), true, remClass(k))
			if !reflect.DeepEqual(got, want) || term != io.EOF || !found || serr != nil {
				if k <= 3 && lib.IsKnown(idShortTail) {
					lib.ObservedKnown(idShortTail)
					lib.ExcludedByKnown(idShortTail)
					return
				}
				t.Fatalf("[%s] a crash left %d byte(s) of a record at the end of the log; after restart, WriteSync(own vote) and WriteSync(#ENDHEIGHT 2) "+
					"returned nil, yet the next reader returns %d of 5 records and ends with %v; SearchForEndHeight(2): found=%v err=%v",
					idShortTail, k, len(got), term, found, serr)
			}
		})
	}
}

// TestRegressDecoderShortReads: same root cause seen from the io.Reader side - the decoder took whatever a single
// Read call delivered for a complete field. A reader that delivers fewer bytes than asked for (allowed by io.Reader)
// must not change what is decoded.
func TestRegressDecoderShortReads(t *testing.T) {
	var stream []byte
	for _, m := range seedMessages() {
		f, err := encodeAt(tm0, m)
		if err != nil {
			t.Fatal(err)
		}
		stream = append(stream, f...)
	}
	whole, term := drain(bytes.NewReader(stream))
	if term != io.EOF || len(whole) != len(seedMessages()) {
		t.Fatalf("plain reader: %d records, then %v", len(whole), term)
	}
	for name, rd := range map[string]io.Reader{
		"one byte per Read":  iotest.OneByteReader(bytes.NewReader(stream)),
		"half of the buffer": iotest.HalfReader(bytes.NewReader(stream)),
		"data with EOF":      iotest.DataErrReader(bytes.NewReader(stream)),
	} {
		out, term := drain(rd)
		lib.Case("TestRegressDecoderShortReads", lib.FP(name), true)
		if len(out) != len(whole) || term != io.EOF {
			if lib.IsKnown(idShortTail) {
				lib.ObservedKnown(idShortTail)
				continue
			}
			t.Fatalf("[%s] reader %q: %d of %d records decoded, then %v", idShortTail, name, len(out), len(whole), term)
		}
	}
}

// TestRegressSecondInitialMarker replays finding C15-second-initial-marker without the property-testing library: the
// chain is in its first height, the node has synced records of it in the WAL, the head is rotated and the node stops
// before anything is written to the new head. After the restart the reader SearchForEndHeight(0) returns - what
// catchupReplay(InitialHeight) replays from - must yield those records. Start used to write a second #ENDHEIGHT 0 into
// the empty head and the newest-first search returned a reader behind it.
func TestRegressSecondInitialMarker(t *testing.T) {
	dir, err := os.MkdirTemp(scratch, "c15-regress-")
	if err != nil {
		t.Fatalf("VERIF-INFRA: %v", err)
	}
	defer os.RemoveAll(dir)
	path := filepath.Join(dir, "wal")
	open := func() *consensus.BaseWAL {
		w, err := consensus.NewWAL(path)
		if err != nil {
			t.Fatalf("VERIF-INFRA: %v", err)
		}
		if err := w.Start(); err != nil {
			t.Fatalf("start: %v", err)
		}
		return w
	}
	stop := func(w *consensus.BaseWAL) {
		if err := w.Stop(); err != nil {
			t.Fatalf("stop: %v", err)
		}
		w.Wait()
		_ = w.Group().Head.Close()
	}
	ts := time.Unix(1_700_000_000, 0).UTC()
	written := []consensus.WALMessage{mkProposal(1, 1, 0, -1, ts, ""), mkVote(2, 1, 0, 1, true, ts, "")}
	w := open()
	for _, m := range written {
		if err := w.WriteSync(m); err != nil {
			t.Fatal(err)
		}
	}
	w.Group().RotateFile() // what the group's ticker does when the head has reached its size limit
	stop(w)

	w = open()
	defer stop(w)
	rd, found, err := w.SearchForEndHeight(0, &consensus.WALSearchOptions{IgnoreDataCorruptionErrors: true})
	if err != nil || !found {
		t.Fatalf("SearchForEndHeight(0): found=%v err=%v", found, err)
	}
	defer rd.Close()
	out, term := drain(rd)
	var got []consensus.WALMessage
	for _, m := range out {
		if _, marker := m.Msg.(consensus.EndHeightMessage); !marker { // replay skips markers
			got = append(got, m.Msg)
		}
	}
	lib.Case("TestRegressSecondInitialMarker", lib.FP(1), true)
	if !reflect.DeepEqual(got, written) || term != io.EOF {
		if lib.IsKnown(idSecondMarker) {
			lib.ObservedKnown(idSecondMarker)
			lib.ExcludedByKnown(idSecondMarker)
			return
		}
		t.Fatalf("[%s] the first height's proposal and vote were written with WriteSync, the head was rotated and the node restarted: "+
			"the reader behind #ENDHEIGHT 0 returns %d of the 2 records (ends with %v)", idSecondMarker, len(got), term)
	}
}
