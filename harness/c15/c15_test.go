// C15 (part a) — the consensus write-ahead log returns what was durably written, in order.
//
// Generated: histories of Write / WriteSync / FlushAndSync / limit checks (rotation + total-size discarding, run
// through the group's own private checks) / scans / clean reopen / CRASH over a real consensus.BaseWAL with small
// head-size and total-size limits in a scratch directory. A crash keeps the bytes of the head file up to a drawn
// (and, for short tails, every) offset between "acknowledged as synced" and "written", optionally flips one byte
// of one file, and restarts through the start-up protocol of consensus.State.OnStart (open, read the unfinished
// height like catchupReplay, on DataCorruptionError: stop, back up, repairWalFile, reopen).
//
// Oracle: a journal kept by the harness (the Go values handed to Write, the order, which writes were acknowledged
// as synced, which files were discarded, which bytes the harness itself destroyed) plus an independent frame parser
// (crc32c + length, written here). Every reader (full scan over the group reader and the reader returned by
// SearchForEndHeight) must return exactly the journal's surviving records, in order, deep-equal to what was written
// and byte-identical on re-encoding.
package c15

import (
	"bytes"
	"encoding/binary"
	"fmt"
	"hash/crc32"
	"io"
	"os"
	"path/filepath"
	"reflect"
	"regexp"
	"sort"
	"strconv"
	"strings"
	"testing"
	"time"

	"github.com/tendermint/tendermint/consensus"
	cstypes "github.com/tendermint/tendermint/consensus/types"
	"github.com/tendermint/tendermint/crypto/merkle"
	"github.com/tendermint/tendermint/libs/autofile"
	tmos "github.com/tendermint/tendermint/libs/os"
	"github.com/tendermint/tendermint/p2p"
	tmproto "github.com/tendermint/tendermint/proto/tendermint/types"
	"github.com/tendermint/tendermint/types"
	"pgregory.net/rapid"

	"verif/lib"
)

func TestMain(m *testing.M) {
	sweepStale()
	lib.Main(m)
}

const (
	// idShortTail: a torn tail of 1..3 bytes (partial checksum field) is read as a clean end of the log.
	idShortTail = "C15-torn-tail-short-header"

	// idLengthDesync: one changed byte in a record's length field hides every later marker of that file from the
	// search that ignores corrupted entries (no way to get back into frame).
	idLengthDesync = "C15-length-byte-desync"

	// idSyncedStart: a node that enters consensus without the WAL catch-up (after block sync / state sync) writes no
	// end-of-height marker for the last synced block; the first height it logs is never replayed after a crash.
	idSyncedStart = "C15-no-marker-after-sync"

	// idSecondMarker: a head that is empty because it has just been rotated gets a second #ENDHEIGHT 0 at the next
	// start; in the chain's first height the end-height search then returns a reader behind it and the records of the
	// unfinished height in the rolled file are not replayed.
	idSecondMarker = "C15-second-initial-marker"

	// refMaxPayload is the documented framing limit: 1 MB of consensus message plus 24 bytes of time stamp.
	refMaxPayload = 1048576 + 24

	testName = "TestWALHistories"
)

var castagnoli = crc32.MakeTable(crc32.Castagnoli)

// ---------------------------------------------------------------------------------------------------------------
// independent frame parser

const (
	frameOK    = iota // a whole frame whose checksum matches
	frameShort        // the bytes end inside the frame
	frameBad          // enough bytes, but not a frame (length over the limit or checksum mismatch)
)

// parseFrame looks at the frame starting at b[0]. Format (wal.go, WALEncoder): 4 bytes big-endian CRC-32C of the
// payload, 4 bytes big-endian payload length, payload.
func parseFrame(b []byte) (n int, status int) {
	if len(b) < 8 {
		return 0, frameShort
	}
	crc := binary.BigEndian.Uint32(b[0:4])
	l := binary.BigEndian.Uint32(b[4:8])
	if l > refMaxPayload {
		return 0, frameBad
	}
	if len(b) < 8+int(l) {
		return 0, frameShort
	}
	if crc32.Checksum(b[8:8+int(l)], castagnoli) != crc {
		return 0, frameBad
	}
	return 8 + int(l), frameOK
}

// ---------------------------------------------------------------------------------------------------------------
// journal / model

type rec struct {
	seq    int
	msg    consensus.WALMessage // the value handed to Write / WriteSync (or EndHeightMessage{0} written by OnStart)
	frame  []byte               // the record's bytes, learned the first time they are seen whole on disk
	synced bool                 // acknowledged: WriteSync / FlushAndSync returned nil afterwards, or rotated, or clean stop
	kind   string
}

func (r *rec) endHeight() (int64, bool) {
	if m, ok := r.msg.(consensus.EndHeightMessage); ok {
		return m.Height, true
	}
	return 0, false
}

// seg is one stretch of a file: a record, or bytes that are no record (torn remnant left by a crash, or a frame the
// harness damaged by flipping a byte).
type seg struct {
	r    *rec
	junk []byte
	why  string // junk only: "torn" | "flip"
	// junk only: the start-up that followed had the previous height's end marker to read from (so the real node
	// would have read up to this junk)
	markerAtStartup bool
	// torn junk only: the record whose first bytes these are, when its whole frame is known
	tornOf *rec
	// flip junk only: a whole frame whose length field is intact (the changed byte is in the checksum or the payload):
	// a decoder that skips it is positioned exactly on the next record
	framed bool
	// flip junk only: the changed byte hit a whole record (not a torn remnant)
	whole bool
}

func (s seg) size() int {
	if s.r != nil {
		return len(s.r.frame)
	}
	return len(s.junk)
}

type fileM struct {
	name string // "" = head, else the numbered file's base name
	idx  int    // numbered files only
	segs []seg
}

type fataler interface {
	Fatalf(format string, args ...interface{})
	Logf(format string, args ...interface{})
}

type sim struct {
	t     fataler
	base  string // scratch root of this case
	gen   int    // sub-directory counter
	dir   string
	path  string
	label string // "" main line, else probe description

	headLimit, totalLimit int64
	wal                   *consensus.BaseWAL

	files []*fileM // retained files in reading order; last one is the head

	headComplete int   // segs of the head wholly on disk (as of the last syncHead)
	headPartial  int   // bytes of the next seg on disk
	headSize     int64 // bytes of the head on disk

	nextSeq int
	ehNext  int64 // height the node is working on = 1 + highest end-height marker written so far
	// 1 + highest marker ever acknowledged as durable: those heights stay finished whatever happens to the records
	ehDurable int64
	tainted   bool // a byte was flipped: completeness is no longer demanded
	refused   bool

	// bookkeeping for the non-triviality rule and the class histogram
	crashes          int
	tornReopen       bool // a start-up happened on a head with a torn tail
	syncedAfterTorn  bool
	readAfterTorn    bool
	history          []string
	classes          map[string]bool
	nRot, nPrune     int
	nFlip, nRepair   int
	nProbe           int
	excusedNoMarker  bool
	knownShortHeader bool
	probeNontrivial  bool

	// a reader that stays open while the log goes on being written, rotated and pruned
	live *liveReader

	// a tick of the group's limit checks scheduled behind the armTick-th low-level Group.Write from now
	armTick   int
	tickFired *tickObs
}

func (s *sim) head() *fileM { return s.files[len(s.files)-1] }

func (s *sim) fail(format string, args ...interface{}) {
	where := ""
	if s.label != "" {
		where = " [" + s.label + "]"
	}
	s.t.Fatalf("%s%s\nhistory: %s\nmodel: %s", fmt.Sprintf(format, args...), where, strings.Join(s.history, " "), s.describe())
}

func (s *sim) infra(format string, args ...interface{}) {
	s.t.Fatalf("VERIF-INFRA: "+format, args...)
}

func (s *sim) describe() string {
	var b strings.Builder
	for _, f := range s.files {
		n := f.name
		if n == "" {
			n = "HEAD"
		}
		fmt.Fprintf(&b, "%s{", n)
		for i, sg := range f.segs {
			if i > 40 {
				fmt.Fprintf(&b, "...+%d", len(f.segs)-i)
				break
			}
			if sg.r != nil {
				mark := ""
				if sg.r.synced {
					mark = "s"
				}
				fmt.Fprintf(&b, "#%d%s:%s/%d ", sg.r.seq, mark, sg.r.kind, len(sg.r.frame))
			} else {
				fmt.Fprintf(&b, "JUNK(%s,%d) ", sg.why, len(sg.junk))
			}
		}
		b.WriteString("} ")
	}
	fmt.Fprintf(&b, "headOnDisk=%d(+%d partial) ehNext=%d tainted=%v", s.headComplete, s.headPartial, s.ehNext, s.tainted)
	return b.String()
}

func (s *sim) note(format string, args ...interface{}) {
	if len(s.history) < 400 {
		s.history = append(s.history, fmt.Sprintf(format, args...))
	}
}

func (s *sim) class(c string) {
	if s.label != "" {
		c = "probe/" + c
	}
	lib.Class(testName, c)
	if s.classes != nil {
		s.classes[c] = true
	}
}

// ---- opening / closing the real WAL ----

func (s *sim) open() {
	w, err := consensus.NewWAL(s.path,
		autofile.GroupHeadSizeLimit(s.headLimit),
		autofile.GroupTotalSizeLimit(s.totalLimit),
		// the group's and the WAL's own tickers would make the history depend on the wall clock: the harness runs
		// the limit checks and the flushes itself
		autofile.GroupCheckDuration(time.Hour))
	if err != nil {
		s.infra("NewWAL: %v", err)
	}
	w.SetFlushInterval(time.Hour)
	s.armTick, s.tickFired = 0, nil
	w.VerifC15AfterEachGroupWrite(s.afterGroupWrite)
	if err := w.Start(); err != nil {
		s.fail("WAL does not start: %v", err)
	}
	s.wal = w
	// BaseWAL.OnStart gives a log without records its first marker, EndHeightMessage{0}, written with WriteSync (a fresh
	// log must have it: it is what the first height is replayed from). Whether an empty HEAD behind rolled files that
	// hold records gets one too is the implementation's business: the model takes what it finds.
	h := s.head()
	if len(h.segs) == 0 {
		b := s.readFile("")
		groupEmpty := true
		for _, f := range s.files {
			if len(f.segs) > 0 {
				groupEmpty = false
			}
		}
		switch n, st := parseFrame(b); {
		case st == frameOK && n == len(b):
			h.segs = append(h.segs, seg{r: &rec{seq: s.nextSeq, msg: consensus.EndHeightMessage{Height: 0}, synced: true, kind: "endheight0"}})
			s.nextSeq++
			if !groupEmpty {
				s.class("start:marker-0-in-empty-head-behind-records")
			}
		case len(b) == 0 && !groupEmpty:
			s.class("start:empty-head-left-empty")
		case len(b) == 0:
			s.fail("(3) a log without any record was started and did not get its initial #ENDHEIGHT 0")
		default:
			s.fail("(2) the empty head holds %d bytes that are not one record after Start", len(b))
		}
	}
	s.syncHead()
	// everything that is in the files when the log is opened is on disk by definition
	s.ackAll()
}

func (s *sim) closeWAL() {
	s.closeLive()
	if s.wal == nil {
		return
	}
	w := s.wal
	s.wal = nil
	if err := w.Stop(); err != nil {
		s.infra("Stop: %v", err)
	}
	w.Wait()
	// BaseWAL.OnStop leaves the head AutoFile's ticker and SIGHUP goroutines running; thousands of opens per
	// process would drown the scheduler
	_ = w.Group().Head.Close()
}

// ---- observing the disk ----

func (s *sim) readFile(name string) []byte {
	p := s.path
	if name != "" {
		p = filepath.Join(s.dir, name)
	}
	b, err := os.ReadFile(p)
	if err != nil {
		if os.IsNotExist(err) {
			return nil
		}
		s.infra("read %s: %v", p, err)
	}
	return b
}

// learn validates the bytes of a frame seen on disk for the first time against the value that was written.
func (s *sim) learn(r *rec, frame []byte) {
	m, err := consensus.NewWALDecoder(bytes.NewReader(frame)).Decode()
	if err != nil {
		s.fail("(1) record #%d (%s, frame of %d bytes with a matching CRC-32C and length) is not decodable: %v", r.seq, r.kind, len(frame), err)
	}
	if !reflect.DeepEqual(m.Msg, r.msg) {
		s.fail("(2) the bytes on disk at the position of record #%d (%s) decode to a different message:\n got %#v\nwant %#v", r.seq, r.kind, m.Msg, r.msg)
	}
	r.frame = append([]byte(nil), frame...)
}

// walk compares the bytes of one file with the model, learning frames on the way. whole: the file must hold all
// its segs completely (numbered files). Returns the number of complete segs and the bytes of the following one.
func (s *sim) walk(f *fileM, b []byte, whole bool) (complete, partial int) {
	off := 0
	name := f.name
	if name == "" {
		name = "head"
	}
	for i, sg := range f.segs {
		rest := b[off:]
		if sg.r == nil || sg.r.frame != nil {
			want := sg.junk
			if sg.r != nil {
				want = sg.r.frame
			}
			if len(rest) >= len(want) {
				if !bytes.Equal(rest[:len(want)], want) {
					s.fail("(2) %s: bytes of seg %d (offset %d) changed on disk", name, i, off)
				}
				off += len(want)
				continue
			}
			if !bytes.Equal(rest, want[:len(rest)]) {
				s.fail("(2) %s: bytes of seg %d (offset %d) changed on disk", name, i, off)
			}
			if sg.r == nil && len(rest) < len(want) {
				s.fail("(2) %s: file shorter than bytes known to be on disk (seg %d)", name, i)
			}
			if whole {
				s.fail("(1) %s ends inside record #%d", name, sg.r.seq)
			}
			return i, len(rest)
		}
		n, st := parseFrame(rest)
		switch st {
		case frameOK:
			s.learn(sg.r, rest[:n])
			off += n
		case frameShort:
			if whole {
				s.fail("(1) %s ends inside record #%d", name, sg.r.seq)
			}
			return i, len(rest)
		default:
			s.fail("(2) %s: at offset %d, where record #%d (%s) was written, the bytes are not a frame", name, off, sg.r.seq, sg.r.kind)
		}
	}
	if off != len(b) {
		s.fail("(2) %s holds %d bytes that nobody wrote (after offset %d)", name, len(b)-off, off)
	}
	return len(f.segs), 0
}

func (s *sim) syncHead() {
	b := s.readFile("")
	s.headComplete, s.headPartial = s.walk(s.head(), b, false)
	s.headSize = int64(len(b))
	if s.headPartial > 0 {
		s.class("live:part-of-a-record-in-file")
	}
}

var numbered = regexp.MustCompile(`^wal\.([0-9]{3,})$`)

// listNumbered returns the numbered files present (index -> size).
func (s *sim) listNumbered() map[int]int64 {
	ents, err := os.ReadDir(s.dir)
	if err != nil {
		s.infra("readdir: %v", err)
	}
	res := map[int]int64{}
	for _, e := range ents {
		m := numbered.FindStringSubmatch(e.Name())
		if m == nil {
			continue
		}
		i, _ := strconv.Atoi(m[1])
		fi, err := e.Info()
		if err != nil {
			s.infra("stat: %v", err)
		}
		res[i] = fi.Size()
	}
	return res
}

func (s *sim) dirBytes() int64 {
	ents, _ := os.ReadDir(s.dir)
	var n int64
	for _, e := range ents {
		if fi, err := e.Info(); err == nil {
			n += fi.Size()
		}
	}
	return n
}

// ---- expectations ----

// stream is the reading order of everything the model has on disk.
type item struct {
	r    *rec
	junk *seg
}

// diskStream lists the segs on disk in reading order; clean = neither junk nor a partial record anywhere.
//
// One coincidence is part of the expectation: when a torn record was left in place (start-up without a marker to
// replay from, or after a flipped byte) and more records were appended behind it, the bytes that follow may happen to
// complete the torn frame (one missing byte equals the next frame's first byte once in 256). A reader then returns
// that record - byte-identical to one that was written - before it loses the framing.
func (s *sim) diskStream() (items []item, clean bool) {
	clean = true
	var flat []*seg
	for fi, f := range s.files {
		n := len(f.segs)
		if fi == len(s.files)-1 {
			n = s.headComplete
			if s.headPartial > 0 {
				clean = false
			}
		}
		for i := 0; i < n; i++ {
			flat = append(flat, &f.segs[i])
		}
	}
	vals := make([]seg, len(flat))
	for i, sg := range flat {
		vals[i] = *sg
	}
	for k, sg := range flat {
		if sg.r != nil {
			items = append(items, item{r: sg.r})
			continue
		}
		clean = false
		if completedByFollowing(vals, k) {
			items = append(items, item{r: sg.tornOf})
			s.class("torn-record-completed-by-following-bytes")
		}
		items = append(items, item{junk: sg})
	}
	return items, clean
}

// runFrom returns the records a reader positioned at items[from] must return: up to the first junk.
func runFrom(items []item, from int) []*rec {
	var out []*rec
	for i := from; i < len(items); i++ {
		if items[i].r == nil {
			break
		}
		out = append(out, items[i].r)
	}
	return out
}

func (s *sim) sameRecord(got *consensus.TimedWALMessage, want *rec) string {
	if !reflect.DeepEqual(got.Msg, want.msg) {
		return fmt.Sprintf("message differs: got %.200s want %.200s", fmt.Sprintf("%#v", got.Msg), fmt.Sprintf("%#v", want.msg))
	}
	var buf bytes.Buffer
	if err := consensus.NewWALEncoder(&buf).Encode(got); err != nil {
		return "returned message cannot be re-encoded: " + err.Error()
	}
	if !bytes.Equal(buf.Bytes(), want.frame) {
		return "re-encoded bytes differ from the bytes written"
	}
	return ""
}

// matchRun compares what a reader returned with the expected run. Returns "" or a description.
func (s *sim) matchRun(out []*consensus.TimedWALMessage, exp []*rec) string {
	for i, m := range out {
		if i >= len(exp) {
			return fmt.Sprintf("(2) the reader returned %d records where %d exist; extra record %d: %.200s", len(out), len(exp), i, fmt.Sprintf("%#v", m.Msg))
		}
		if d := s.sameRecord(m, exp[i]); d != "" {
			return fmt.Sprintf("(2) record %d returned by the reader is not the record written there (#%d %s): %s", i, exp[i].seq, exp[i].kind, d)
		}
	}
	if len(out) < len(exp) {
		return fmt.Sprintf("(1) the reader returned %d records and stopped before intact record #%d (%s)", len(out), exp[len(out)].seq, exp[len(out)].kind)
	}
	return ""
}

func drain(rd io.Reader) (out []*consensus.TimedWALMessage, term error) {
	dec := consensus.NewWALDecoder(rd)
	for {
		m, err := dec.Decode()
		if err != nil {
			return out, err
		}
		out = append(out, m)
	}
}

// fullScan reads the whole group the way SearchForEndHeight does (group reader from MinIndex) and checks
// exactness, order, byte identity and - unless a byte was flipped - that no acknowledged record is missing.
func (s *sim) fullScan(when string) {
	s.syncHead()
	g := s.wal.Group()
	gr, err := g.NewReader(g.MinIndex())
	if err != nil {
		s.fail("NewReader: %v", err)
	}
	out, term := drain(gr)
	gr.Close()
	items, clean := s.diskStream()
	exp := runFrom(items, 0)
	if d := s.matchRun(out, exp); d != "" {
		s.fail("full scan %s: %s (reader ended with: %v)", when, d, term)
	}
	if clean && term != io.EOF {
		s.fail("full scan %s: (1) the log is intact but the reader ended with %v", when, term)
	}
	if !clean && term != io.EOF && !consensus.IsDataCorruptionError(term) {
		s.fail("full scan %s: reader ended with an error that is neither EOF nor DataCorruptionError: %v", when, term)
	}
	s.completeness("full scan "+when, items, exp)
	s.class("scan")
	if s.syncedAfterTorn {
		s.readAfterTorn = true
	}
}

// completeness: every acknowledged record that was not discarded with a whole oldest file is among the returned ones.
func (s *sim) completeness(what string, items []item, returned []*rec) {
	if s.tainted {
		return
	}
	var blocking *seg
	for i, it := range items {
		if it.junk != nil {
			if blocking == nil {
				blocking = it.junk
			}
			continue
		}
		if i < len(returned) || !it.r.synced {
			continue
		}
		// an acknowledged record is behind bytes no reader gets past
		switch {
		case blocking != nil && blocking.why == "torn" && !blocking.markerAtStartup:
			// the node had no end-of-height marker to replay from (discarded by a tiny total-size limit), so the
			// real start-up never read the tail: outside what real callers do
			if !s.excusedNoMarker {
				s.excusedNoMarker = true
				s.class("excused:no-marker-at-startup")
			}
			return
		case blocking != nil && blocking.why == "torn" && len(blocking.junk) <= 3:
			if lib.IsKnown(idShortTail) {
				lib.ObservedKnown(idShortTail)
				lib.ExcludedByKnown(idShortTail)
				return
			}
			s.fail("%s: (1) acknowledged record #%d (%s) is not returned: a crash left %d byte(s) of a torn record at the end of the head, "+
				"the start-up path read them as a clean end of file, and the records appended behind them are unreadable [%s]",
				what, it.r.seq, it.r.kind, len(blocking.junk), idShortTail)
		default:
			s.fail("%s: (1) acknowledged record #%d (%s) is not returned by the reader", what, it.r.seq, it.r.kind)
		}
	}
	// acknowledged records that are not even in the file
	h := s.head()
	for i := s.headComplete; i < len(h.segs); i++ {
		if r := h.segs[i].r; r != nil && r.synced {
			s.fail("%s: (1) record #%d (%s) was acknowledged as synced but is not in the file", what, r.seq, r.kind)
		}
	}
}

// search runs SearchForEndHeight(h) and, when found, drains the returned reader; everything is compared with the
// model. It returns what the caller (catchupReplay) would see.
func (s *sim) search(h int64, ignore bool, when string) (found bool, term error, err error) {
	s.syncHead()
	rd, found, err := s.wal.SearchForEndHeight(h, &consensus.WALSearchOptions{IgnoreDataCorruptionErrors: ignore})
	items, clean := s.diskStream()
	var occ []int
	for i, it := range items {
		if it.r != nil {
			if eh, ok := it.r.endHeight(); ok && eh == h {
				occ = append(occ, i)
			}
		}
	}
	what := fmt.Sprintf("SearchForEndHeight(%d, ignoreCorruption=%v) %s", h, ignore, when)
	// Damaged records that keep the framing (one changed byte in a checksum or a payload) do not hide the records
	// behind them: skipping corrupted entries is what IgnoreDataCorruptionErrors is for, so that search must find
	// every intact marker; the strict search must find it or report the corruption, never answer "not there".
	behindDamage := len(occ) > 0 && !clean && framedDamageOnly(items)
	if behindDamage {
		s.class(fmt.Sprintf("search:marker-on-disk-with-framed-damage/ignore=%v", ignore))
	}
	// A changed byte in a record's LENGTH field is a single-byte corruption too, but the format has nothing to find
	// the next record with (the checksum covers the payload only, there is no sync mark): the skipping search reads
	// on out of frame and misses every marker behind the damage in that file. Known finding, tolerated by signature.
	lengthDesync := false
	if len(occ) > 0 && !clean && !behindDamage && ignore && flipsOnly(items) {
		lengthDesync = true
		for _, p := range occ {
			if !unframedFlipBefore(s, items[p].r) {
				lengthDesync = false // this occurrence is reachable in frame
			}
		}
		if !lengthDesync {
			behindDamage = true // some occurrence has no length damage in front of it in its file: must be found
		}
	}
	if err != nil {
		if rd != nil || found {
			s.fail("%s: error %v together with found=%v reader=%v", what, err, found, rd != nil)
		}
		if clean && !s.tainted {
			s.fail("%s: (3) the log is intact but the search failed: %v", what, err)
		}
		if behindDamage && ignore {
			s.fail("%s: (3) the marker (record #%d) is intact on disk and reachable in frame, but the search that ignores corrupted entries failed: %v",
				what, items[occ[0]].r.seq, err)
		}
		s.class("search:error")
		return false, nil, err
	}
	if !found {
		if rd != nil {
			s.fail("%s: not found but a reader was returned", what)
		}
		if len(occ) > 0 && clean && !s.tainted {
			s.fail("%s: (3) marker was written (record #%d), is on disk and was not discarded, but the search did not find it", what, items[occ[0]].r.seq)
		}
		if behindDamage {
			s.fail("%s: (3) marker was written (record #%d), is intact on disk and was not discarded; the only damage in front of it in its file is records with one changed byte "+
				"in checksum or payload (framing intact), yet the search answers 'not found' without an error", what, items[occ[0]].r.seq)
		}
		if lengthDesync {
			if lib.IsKnown(idLengthDesync) {
				lib.ObservedKnown(idLengthDesync)
				lib.ExcludedByKnown(idLengthDesync)
			} else {
				s.fail("%s: (3) marker was written (record #%d), is intact on disk and was not discarded, but a record in front of it in the same file has one changed byte in its "+
					"length field: the search that skips corrupted entries never gets back into frame and answers 'not found' [%s]", what, items[occ[0]].r.seq, idLengthDesync)
			}
		}
		s.class("search:notfound")
		return false, nil, nil
	}
	if rd == nil {
		s.fail("%s: found without a reader", what)
	}
	out, term := drain(rd)
	rd.Close()
	if len(occ) == 0 {
		s.fail("%s: (3) found, but no such marker is on disk (never written, lost in a crash, or discarded)", what)
	}
	why := ""
	ok := false
	// While the chain is in its first height (no marker above 0 on disk) the records behind the FIRST #ENDHEIGHT 0 are
	// the unfinished height: a reader that starts behind a later copy of the marker (Start may put one into an empty
	// head) must not skip any of them.
	firstHeight := h == 0
	for _, it := range items {
		if it.r != nil {
			if eh, isMarker := it.r.endHeight(); isMarker && eh > 0 {
				firstHeight = false
			}
		}
	}
	skipsRecords := func(p int) *rec {
		if !firstHeight || p <= occ[0] {
			return nil
		}
		for _, it := range items[occ[0]+1 : p] {
			if it.r != nil {
				if _, isMarker := it.r.endHeight(); !isMarker {
					return it.r
				}
			}
		}
		return nil
	}
	for _, p := range occ {
		exp := runFrom(items, p+1)
		if d := s.matchRun(out, exp); d == "" {
			if r := skipsRecords(p); r != nil {
				if lib.IsKnown(idSecondMarker) {
					lib.ObservedKnown(idSecondMarker)
					lib.ExcludedByKnown(idSecondMarker)
				} else {
					s.fail("%s: (3) the log holds two #ENDHEIGHT 0 markers (the second one written by Start into an empty head behind a rolled file) and the chain is "+
						"still in its first height; the returned reader starts behind the later marker and skips record #%d (%s) of the unfinished height, "+
						"which is durably on disk: it will not be replayed [%s]", what, r.seq, r.kind, idSecondMarker)
				}
			}
			ok = true
			if clean && term != io.EOF {
				s.fail("%s: (1) the log is intact but the returned reader ended with %v", what, term)
			}
			break
		} else {
			why = d
		}
	}
	if !ok {
		s.fail("%s: the returned reader does not start right after the marker: %s (reader ended with %v)", what, why, term)
	}
	if term != io.EOF && !consensus.IsDataCorruptionError(term) {
		s.fail("%s: reader ended with an error that is neither EOF nor DataCorruptionError: %v", what, term)
	}
	s.class("search:found")
	return true, term, nil
}

// ---- a reader that stays open ----

// liveReader is a group reader (opened at the oldest file, or returned by SearchForEndHeight) with a decoder on it
// that is read a few records at a time while the history goes on: what it returns must be the journal's records from
// its position on, without holes, whatever was appended, rotated or discarded since it was opened (a discarded file it
// had not reached is skipped; the one it is reading stays readable).
type liveReader struct {
	rd     io.ReadCloser
	dec    *consensus.WALDecoder
	file   *fileM // file of the next record to come
	seg    int    // and its position there
	origin string
	nread  int
	// rotations / discarded files the history had seen when the reader was last used
	rotSeen, pruneSeen int
	// the reader has `file` open (it was opened on it or has read a record from it); false when it was opened on an
	// empty file in front of it (group readers create the files they look for, and MinIndex dates from the last open)
	holds bool
}

func (s *sim) closeLive() {
	if s.live != nil {
		s.live.rd.Close()
		s.live = nil
	}
}

// liveExpected lists what the open reader must return from its position on: the rest of its file, then every file
// behind it, up to the first bytes that are no record. blocked: it ends at junk or inside a partly flushed record.
func (s *sim) liveExpected() (exp []*rec, blocked bool) {
	lr := s.live
	s.syncHead()
	pos := -1
	for i, f := range s.files {
		if f == lr.file {
			pos = i
		}
	}
	type span struct {
		f    *fileM
		from int
	}
	var spans []span
	if pos >= 0 || lr.holds {
		// also when it has been discarded meanwhile, if the reader holds it open
		spans = append(spans, span{lr.file, lr.seg})
	}
	for i := pos + 1; i < len(s.files); i++ {
		spans = append(spans, span{s.files[i], 0})
	}
	head := s.head()
	for _, sp := range spans {
		limit := len(sp.f.segs)
		if sp.f == head {
			limit = s.headComplete
		}
		for i := sp.from; i < limit; i++ {
			if sp.f.segs[i].r == nil {
				return exp, true
			}
			exp = append(exp, sp.f.segs[i].r)
		}
		if sp.f == head && s.headPartial > 0 {
			return exp, true
		}
	}
	return exp, false
}

func (s *sim) locate(r *rec) (*fileM, int) {
	for _, f := range s.files {
		for i := range f.segs {
			if f.segs[i].r == r {
				return f, i
			}
		}
	}
	return nil, 0
}

// openLive opens the long-lived reader: at the oldest file, or through SearchForEndHeight(h) when h >= 0.
func (s *sim) openLive(h int64) {
	s.syncHead()
	if h >= 0 {
		items, clean := s.diskStream()
		var occ []*rec
		for _, it := range items {
			if it.r != nil {
				if eh, ok := it.r.endHeight(); ok && eh == h {
					occ = append(occ, it.r)
				}
			}
		}
		if !clean || len(occ) != 1 {
			h = -1
		} else {
			rd, found, err := s.wal.SearchForEndHeight(h, &consensus.WALSearchOptions{})
			if err != nil || !found {
				s.fail("SearchForEndHeight(%d) for a long-lived reader: (3) the log is intact and the marker (record #%d) is on disk: found=%v err=%v", h, occ[0].seq, found, err)
			}
			f, i := s.locate(occ[0])
			s.live = &liveReader{rd: rd, dec: consensus.NewWALDecoder(rd), file: f, seg: i + 1, origin: fmt.Sprintf("search(%d)", h), holds: true}
		}
	}
	if h < 0 {
		g := s.wal.Group()
		gr, err := g.NewReader(g.MinIndex())
		if err != nil {
			s.fail("NewReader: %v", err)
		}
		first := g.MaxIndex()
		if s.files[0].name != "" {
			first = s.files[0].idx
		}
		s.live = &liveReader{rd: gr, dec: consensus.NewWALDecoder(gr), file: s.files[0], seg: 0, origin: "oldest-file", holds: g.MinIndex() == first}
	}
	s.live.rotSeen, s.live.pruneSeen = s.nRot, s.nPrune
	s.class("live-reader:open/" + map[bool]string{true: "search", false: "oldest-file"}[h >= 0])
	s.note("RD-OPEN(%s)", s.live.origin)
}

// readLive reads up to n records (n < 0: to the end) from the open reader.
func (s *sim) readLive(n int) {
	lr := s.live
	exp, blocked := s.liveExpected()
	if s.nRot > lr.rotSeen {
		s.class("live-reader:read-after-rotation")
	}
	if s.nPrune > lr.pruneSeen {
		s.class("live-reader:read-after-discarding")
	}
	lr.rotSeen, lr.pruneSeen = s.nRot, s.nPrune
	for i := 0; n < 0 || i < n; i++ {
		m, err := lr.dec.Decode()
		if err != nil {
			if i < len(exp) {
				s.fail("long-lived reader (%s, %d records read so far): (1) it ends with %v before intact record #%d (%s) that is in the files behind its position",
					lr.origin, lr.nread, err, exp[i].seq, exp[i].kind)
			}
			if !blocked && err != io.EOF {
				s.fail("long-lived reader (%s): (1) nothing but whole records lies behind its position, yet it ends with %v", lr.origin, err)
			}
			if err != io.EOF && !consensus.IsDataCorruptionError(err) {
				s.fail("long-lived reader (%s): ends with an error that is neither EOF nor DataCorruptionError: %v", lr.origin, err)
			}
			s.class("live-reader:drained")
			s.note("RD-END(%d)", lr.nread)
			s.closeLive()
			return
		}
		if i >= len(exp) {
			s.fail("long-lived reader (%s, %d records read so far): (2) it returns a record where none is on disk: %.200s", lr.origin, lr.nread, fmt.Sprintf("%#v", m.Msg))
		}
		if d := s.sameRecord(m, exp[i]); d != "" {
			s.fail("long-lived reader (%s, %d records read so far): (2) the record it returns is not the next record of the log (#%d %s): %s",
				lr.origin, lr.nread, exp[i].seq, exp[i].kind, d)
		}
		lr.nread++
		f, k := s.locate(exp[i])
		if f == nil {
			// the record's file has been discarded while the reader holds it open
			f, k = lr.file, lr.seg
			for f.segs[k].r != exp[i] {
				k++
			}
		}
		lr.file, lr.seg, lr.holds = f, k+1, true
	}
	s.note("RD(%d)", lr.nread)
	s.class("live-reader:partial-read")
}

// flipsOnly: everything on disk that is not a record is a frame with one changed byte, and marker heights increase.
func flipsOnly(items []item) bool {
	last := int64(0)
	for _, it := range items {
		if it.junk != nil {
			if it.junk.why != "flip" || !it.junk.whole {
				return false
			}
			continue
		}
		if eh, ok := it.r.endHeight(); ok && eh != 0 {
			if eh <= last {
				return false
			}
			last = eh
		}
	}
	return true
}

// unframedFlipBefore: in the file that holds r, a frame with a changed length byte lies in front of r.
func unframedFlipBefore(s *sim, r *rec) bool {
	f, k := s.locate(r)
	if f == nil {
		return false
	}
	for _, sg := range f.segs[:k] {
		if sg.r == nil && sg.why == "flip" && !sg.framed {
			return true
		}
	}
	return false
}

// framedDamageOnly: everything on disk that is not a record is a whole frame with one changed byte outside its length
// field, and the heights of the intact markers (other than 0) increase along the log, as the search's early exit
// assumes.
func framedDamageOnly(items []item) bool {
	last := int64(0)
	for _, it := range items {
		if it.junk != nil {
			if it.junk.why != "flip" || !it.junk.framed {
				return false
			}
			continue
		}
		if eh, ok := it.r.endHeight(); ok && eh != 0 {
			if eh <= last {
				return false
			}
			last = eh
		}
	}
	return true
}

// ---- the start-up protocol of consensus.State.OnStart, WAL part ----

// catchupRead makes the reads catchupReplay(csHeight) makes.
func (s *sim) catchupRead(csHeight int64) error {
	found, _, err := s.search(csHeight, true, "at start-up")
	if err != nil {
		return err
	}
	if found {
		return fmt.Errorf("wal should not contain #ENDHEIGHT %d", csHeight)
	}
	found, term, err := s.search(csHeight-1, true, "at start-up")
	if err != nil {
		return err
	}
	if !found {
		return fmt.Errorf("cannot replay height %d. WAL does not contain #ENDHEIGHT for %d", csHeight, csHeight-1)
	}
	if term == io.EOF {
		return nil
	}
	return term
}

func (s *sim) hasMarker(h int64) bool {
	items, _ := s.diskStream()
	for _, it := range items {
		if it.r != nil {
			if eh, ok := it.r.endHeight(); ok && eh == h {
				return true
			}
		}
	}
	return false
}

// startup opens the log and runs OnStart's catch-up loop: open; catchupReplay's reads; on DataCorruptionError once:
// Stop, copy to .CORRUPTED, repairWalFile, open again.
func (s *sim) startup() {
	h := s.head()
	tornTail := len(h.segs) > 0 && h.segs[len(h.segs)-1].r == nil && h.segs[len(h.segs)-1].why == "torn"
	s.open()
	csHeight := s.ehNext
	marker := s.hasMarker(csHeight - 1)
	if !marker {
		s.class("startup:no-marker")
		if !s.tainted {
			s.class("startup:no-marker/no-flip")
		}
	}
	for i := range h.segs {
		if h.segs[i].r == nil && h.segs[i].why == "torn" && i == len(h.segs)-1 {
			h.segs[i].markerAtStartup = marker
		}
	}
	repaired := false
	s.refused = false
	for {
		err := s.catchupRead(csHeight)
		if err == nil {
			s.class("startup:replayed")
			break
		}
		if !consensus.IsDataCorruptionError(err) {
			s.class("startup:proceed-anyway")
			break
		}
		if repaired {
			// OnStart returns the error: the node does not start
			if !s.tainted {
				s.fail("start-up: the log is still corrupt after the repair although no byte was flipped: %v", err)
			}
			s.refused = true
			s.class("startup:refused")
			break
		}
		s.closeWAL()
		repaired = true
		corrupted := s.path + ".CORRUPTED"
		if err := tmos.CopyFile(s.path, corrupted); err != nil {
			s.infra("CopyFile: %v", err)
		}
		if err := consensus.VerifC15RepairWalFile(corrupted, s.path); err != nil {
			s.fail("repairWalFile: %v", err)
		}
		s.modelRepair()
		s.nRepair++
		s.class("startup:repair")
		s.open()
	}
	if tornTail {
		s.tornReopen = true
		// known finding: the short remnant is still there; take it away so that the search continues behind it
		if n := len(h.segs); lib.IsKnown(idShortTail) && n > 0 {
			for i := 0; i < len(h.segs); i++ {
				if sg := h.segs[i]; sg.r == nil && sg.why == "torn" && len(sg.junk) <= 3 && sg.markerAtStartup {
					lib.ObservedKnown(idShortTail)
					lib.ExcludedByKnown(idShortTail)
					s.knownShortHeader = true
					s.closeWAL()
					keep := 0
					for _, x := range h.segs[:i] {
						keep += x.size()
					}
					if err := os.Truncate(s.path, int64(keep)); err != nil {
						s.infra("truncate: %v", err)
					}
					h.segs = h.segs[:i]
					s.open()
					break
				}
			}
		}
	}
}

// modelRepair: the head becomes its decodable prefix.
func (s *sim) modelRepair() {
	h := s.head()
	cut := len(h.segs)
	for i, sg := range h.segs {
		if sg.r == nil {
			cut = i
			break
		}
	}
	var blocking *seg
	if cut < len(h.segs) {
		blocking = &h.segs[cut]
	}
	for _, sg := range h.segs[cut:] {
		if sg.r != nil && sg.r.synced && !s.tainted {
			if blocking.why == "torn" && !blocking.markerAtStartup {
				if !s.excusedNoMarker {
					s.excusedNoMarker = true
					s.class("excused:no-marker-at-startup")
				}
				continue
			}
			if blocking.why == "torn" && len(blocking.junk) <= 3 && lib.IsKnown(idShortTail) {
				lib.ObservedKnown(idShortTail)
				lib.ExcludedByKnown(idShortTail)
				continue
			}
			s.fail("start-up repair: (1) acknowledged record #%d (%s) is cut away by the repair: it sits behind %d byte(s) of a torn record "+
				"that an earlier start-up left in place [%s]", sg.r.seq, sg.r.kind, len(blocking.junk), idShortTail)
		}
		if sg.r != nil {
			if eh, ok := sg.r.endHeight(); ok && eh >= s.ehNext {
				// cannot happen: ehNext is above every durable marker
				s.fail("harness: marker above ehNext")
			}
		}
	}
	// the coincidence described at diskStream: the bytes behind a torn record complete its frame, the repair's
	// decoder reads it as a record and copies it
	if blocking != nil && completedByFollowing(h.segs, cut) {
		s.class("torn-record-completed-by-following-bytes")
		s.tainted = true // a record that was lost is back; the heights of markers may now repeat
		r := *blocking.tornOf
		h.segs = append(h.segs[:cut:cut], seg{r: &r})
		return
	}
	h.segs = h.segs[:cut]
}

// completedByFollowing: segs[k] is the torn beginning of a known frame and the bytes of the segs behind it happen
// to continue that frame to its end.
func completedByFollowing(segs []seg, k int) bool {
	sg := segs[k]
	if sg.r != nil || sg.why != "torn" || sg.tornOf == nil {
		return false
	}
	need := len(sg.tornOf.frame) - len(sg.junk)
	if need <= 0 {
		return false
	}
	var follow []byte
	for _, nx := range segs[k+1:] {
		if len(follow) >= need {
			break
		}
		if nx.r != nil {
			if nx.r.frame == nil {
				break
			}
			follow = append(follow, nx.r.frame...)
		} else {
			follow = append(follow, nx.junk...)
		}
	}
	return len(follow) >= need && bytes.Equal(follow[:need], sg.tornOf.frame[len(sg.junk):])
}

// ---- operations ----

func (s *sim) write(msg consensus.WALMessage, kind string, sync bool) {
	r := &rec{seq: s.nextSeq, msg: msg, kind: kind}
	var err error
	if sync {
		err = s.wal.WriteSync(msg)
	} else {
		err = s.wal.Write(msg)
	}
	fired := s.tickFired
	s.armTick, s.tickFired = 0, nil
	if err != nil {
		// not acknowledged; the encoder refuses before writing anything (only over-sized messages get here)
		if !strings.Contains(err.Error(), "too big") {
			s.fail("Write: %v", err)
		}
		if fired != nil {
			s.fail("a refused record reached the autofile group")
		}
		s.class("write:rejected-too-big")
		s.note("reject(%s)", kind)
		s.syncHead()
		return
	}
	s.nextSeq++
	h := s.head()
	h.segs = append(h.segs, seg{r: r})
	if fired != nil {
		// the tick ran while this record was being handed to the group
		s.class("tick-between-group-writes")
		s.note("TICK-IN-WRITE")
		s.tickModel(*fired)
	}
	if sync {
		s.ackAll()
		if s.tornReopen {
			s.syncedAfterTorn = true
		}
	}
	if eh, ok := r.endHeight(); ok {
		s.ehNext = eh + 1
	}
	s.class("msg:" + kind)
	s.note("%s(#%d %s)", map[bool]string{true: "WS", false: "W"}[sync], r.seq, kind)
}

func (s *sim) ack(r *rec) {
	r.synced = true
	if eh, ok := r.endHeight(); ok && eh+1 > s.ehDurable {
		s.ehDurable = eh + 1
	}
}

func (s *sim) ackAll() {
	for _, sg := range s.head().segs {
		if sg.r != nil {
			s.ack(sg.r)
		}
	}
}

func (s *sim) flushAndSync() {
	if err := s.wal.FlushAndSync(); err != nil {
		s.fail("FlushAndSync: %v", err)
	}
	pending := false
	for _, sg := range s.head().segs {
		if sg.r != nil && !sg.r.synced {
			pending = true
		}
	}
	s.ackAll()
	if pending && s.tornReopen {
		s.syncedAfterTorn = true
	}
	s.note("FS")
}

// checkLimits runs one tick of the group's limit checks and follows what it did.
// tickObs is what one tick of the group's limit checks did, as far as the harness can see from outside.
type tickObs struct {
	maxBefore, maxAfter int
	rotated             []byte // content of the file the head was renamed to, read before the total-size check can remove it
	headMid             int64  // size of the head file between the two checks
}

// tickReal runs one tick of processTicks: head-size check (rotation), then total-size check (discarding).
func (s *sim) tickReal() tickObs {
	g := s.wal.Group()
	var o tickObs
	o.maxBefore = g.MaxIndex()
	g.VerifC15CheckHeadSizeLimit()
	o.maxAfter = g.MaxIndex()
	if o.maxAfter == o.maxBefore+1 {
		o.rotated = s.readFile(fmt.Sprintf("wal.%03d", o.maxBefore))
		if o.rotated == nil {
			o.rotated = []byte{}
		}
	}
	if fi, err := os.Stat(s.path); err == nil {
		o.headMid = fi.Size()
	}
	g.VerifC15CheckTotalSizeLimit()
	if g.MaxIndex() != o.maxAfter {
		s.fail("total-size check moved MaxIndex from %d to %d", o.maxAfter, g.MaxIndex())
	}
	return o
}

// checkLimits runs one tick between two records and follows what it did.
func (s *sim) checkLimits() {
	s.syncHead()
	s.tickModel(s.tickReal())
}

// tickModel follows a tick in the model. Everything written before the tick belongs to the files as they were
// before it: a rotation moves whole records, never part of one.
func (s *sim) tickModel(o tickObs) {
	maxBefore, maxAfter := o.maxBefore, o.maxAfter
	switch {
	case maxAfter == maxBefore+1:
		// rotated: the head, flushed and synced, became the numbered file maxBefore
		h := s.head()
		h.name = fmt.Sprintf("wal.%03d", maxBefore)
		h.idx = maxBefore
		b := o.rotated
		s.walk(h, b, true)
		s.ackAll()
		if len(b) == 0 {
			s.class("rotation:empty")
		}
		s.files = append(s.files, &fileM{})
		s.nRot++
		s.class("rotation")
		s.note("ROT(%d)", maxBefore)
	case maxAfter != maxBefore:
		s.fail("limit check moved MaxIndex from %d to %d", maxBefore, maxAfter)
	}
	// discarded files: only whole oldest files, never the head
	present := s.listNumbered()
	firstKept := -1
	for i, f := range s.files[:len(s.files)-1] {
		_, ok := present[f.idx]
		if ok && firstKept < 0 {
			firstKept = i
		}
		if !ok && firstKept >= 0 {
			s.fail("(1) size limit removed %s although the older %s is still there: not an oldest file", f.name, s.files[firstKept].name)
		}
	}
	nNumbered := len(s.files) - 1
	removed := firstKept
	if firstKept < 0 {
		removed = nNumbered
	}
	if removed > 0 {
		var dropped int
		for _, f := range s.files[:removed] {
			for _, sg := range f.segs {
				if sg.r != nil {
					dropped++
				}
			}
		}
		s.files = s.files[removed:]
		s.nPrune += removed
		s.class("prune")
		s.class(fmt.Sprintf("prune:files=%d", removed))
		s.note("PRUNE(%d files, %d recs)", removed, dropped)
	}
	// whatever else carries a number must be an empty file (group readers create the files they look for)
	known := map[int]bool{}
	for _, f := range s.files[:len(s.files)-1] {
		known[f.idx] = true
	}
	for idx, size := range present {
		if !known[idx] && size != 0 {
			s.fail("(2) unexpected non-empty file wal.%03d (%d bytes)", idx, size)
		}
	}
	// the head survives
	if o.headMid > 0 {
		if _, err := os.Stat(s.path); err != nil {
			s.fail("(1) the head file is gone after the size-limit check: %v", err)
		}
	}
	s.syncHead()
}

// afterGroupWrite is called by the interposed writer whenever a Write of the autofile group has returned. When the
// history has armed a tick for this low-level write, the group's ticker "wins the mutex" here: one tick of the limit
// checks runs between two Group.Write calls of the code under test - after a record on a WAL that hands each record
// to the group in one piece, inside a record otherwise.
func (s *sim) afterGroupWrite() {
	if s.armTick <= 0 {
		return
	}
	s.armTick--
	if s.armTick == 0 {
		o := s.tickReal()
		s.tickFired = &o
	}
}

func (s *sim) cleanReopen() {
	s.closeWAL()
	// Stop flushes and syncs
	s.syncHeadOffline()
	pending := false
	for _, sg := range s.head().segs {
		if sg.r != nil && !sg.r.synced {
			pending = true
		}
	}
	s.ackAll()
	if pending && s.tornReopen {
		s.syncedAfterTorn = true
	}
	s.note("REOPEN")
	s.class("reopen-clean")
	s.startup()
	s.fullScan("after clean reopen")
}

func (s *sim) syncHeadOffline() {
	b := s.readFile("")
	s.headComplete, s.headPartial = s.walk(s.head(), b, true)
	s.headSize = int64(len(b))
}

// ackedEnd is the offset in the head behind the last acknowledged record.
func (s *sim) ackedEnd() int {
	h := s.head()
	end, off := 0, 0
	for i, sg := range h.segs {
		if i >= s.headComplete {
			if sg.r != nil && sg.r.synced {
				s.fail("(1) record #%d (%s) was acknowledged as synced but is not in the file", sg.r.seq, sg.r.kind)
			}
			continue
		}
		off += sg.size()
		if sg.r == nil || sg.r.synced {
			end = off
		}
	}
	return end
}

// boundaries returns the offsets in the head where a seg that is (at least partly) on disk starts, plus the end of
// the complete ones.
func (s *sim) boundaries() []int {
	h := s.head()
	var res []int
	off := 0
	for i := 0; i < s.headComplete; i++ {
		res = append(res, off)
		off += h.segs[i].size()
	}
	return append(res, off)
}

func remClass(rem int) string {
	switch {
	case rem == 0:
		return "rem0"
	case rem <= 3:
		return "rem1-3"
	case rem <= 7:
		return "rem4-7"
	default:
		return "rem8+"
	}
}

// cloneAt copies the directory as a crash at head offset o leaves it and returns the simulator that owns the copy.
// The model is copied; records are shared (frames are immutable once learned).
func (s *sim) cloneAt(o int, label string) *sim {
	s.gen++
	c := *s
	c.label = label
	c.wal = nil
	c.live = nil
	c.dir = filepath.Join(s.base, fmt.Sprintf("g%d", s.gen))
	c.path = filepath.Join(c.dir, "wal")
	c.history = append([]string(nil), s.history...)
	c.classes = nil
	if label == "" {
		c.classes = s.classes
	}
	if err := os.Mkdir(c.dir, 0o700); err != nil {
		s.infra("mkdir: %v", err)
	}
	c.files = nil
	for _, f := range s.files {
		nf := &fileM{name: f.name, idx: f.idx, segs: append([]seg(nil), f.segs...)}
		c.files = append(c.files, nf)
		if f.name != "" {
			// numbered files are never written in place (the harness rewrites a file it flips a byte in only after
			// the other copies are gone)
			if err := os.Link(filepath.Join(s.dir, f.name), filepath.Join(c.dir, f.name)); err != nil {
				if err := tmos.CopyFile(filepath.Join(s.dir, f.name), filepath.Join(c.dir, f.name)); err != nil {
					s.infra("copy: %v", err)
				}
			}
		}
	}
	b := s.readFile("")
	if o > len(b) {
		s.infra("offset beyond head")
	}
	if len(b) > 0 || o > 0 {
		if err := os.WriteFile(c.path, b[:o], 0o600); err != nil {
			s.infra("write head: %v", err)
		}
	}
	// model: records wholly below o stay; the one o cuts through leaves a torn remnant; the rest is lost
	h := c.head()
	off := 0
	var kept []seg
	for i, sg := range h.segs {
		if i >= s.headComplete+1 {
			break
		}
		var size int
		if i < s.headComplete {
			size = sg.size()
		} else {
			size = s.headPartial // a record only partly handed to the file
		}
		if off+size <= o && i < s.headComplete {
			if sg.r != nil && !sg.r.synced {
				// the copy acknowledges what survives its crash; the original must not see that
				nr := *sg.r
				sg.r = &nr
			}
			kept = append(kept, sg)
			off += size
			continue
		}
		for _, lost := range h.segs[i:] {
			if lost.r != nil && lost.r.synced {
				// by construction o >= ackedEnd
				s.fail("harness: crash offset %d cuts acknowledged record #%d", o, lost.r.seq)
			}
		}
		if o > off {
			j := seg{junk: append([]byte(nil), b[off:o]...), why: "torn"}
			if sg.r != nil && sg.r.frame != nil {
				j.tornOf = sg.r
			}
			kept = append(kept, j)
		}
		break
	}
	h.segs = kept
	c.headComplete, c.headPartial, c.headSize = len(kept), 0, int64(o)
	// the node redoes the height whose marker did not survive
	c.ehNext = c.durableFloor()
	for _, f := range c.files {
		for _, sg := range f.segs {
			if sg.r != nil {
				if eh, ok := sg.r.endHeight(); ok && eh+1 > c.ehNext {
					c.ehNext = eh + 1
				}
			}
		}
	}
	return &c
}

// durableFloor: heights whose markers were acknowledged as durable stay finished, whatever happens to the records.
func (s *sim) durableFloor() int64 {
	if s.ehDurable > 1 {
		return s.ehDurable
	}
	return 1
}

func (s *sim) remnantAt(o int) int {
	bs := s.boundaries()
	rem := o
	for _, b := range bs {
		if b <= o {
			rem = o - b
		}
	}
	return rem
}

// probe: crash at offset o on a copy, restart, append synced records, reopen, read. This is the history shape the
// non-triviality rule asks for, run for every enumerated offset.
func (s *sim) probe(o int) {
	rem := s.remnantAt(o)
	p := s.cloneAt(o, fmt.Sprintf("probe: crash keeps %d head bytes (%d of a torn record)", o, rem))
	defer func() {
		p.closeWAL()
		os.RemoveAll(p.dir)
	}()
	lib.Class(testName, "probe:"+remClass(rem))
	s.nProbe++
	p.note("|PROBE@%d:", o)
	p.startup()
	p.fullScan("after crash restart")
	p.write(consensus.VerifTimeout{Duration: time.Duration(p.nextSeq + 1), Height: p.ehNext, Round: 0, Step: cstypes.RoundStepPropose}, "timeout", true)
	eh := p.ehNext
	p.write(consensus.EndHeightMessage{Height: eh}, "endheight", true)
	p.write(consensus.VerifTimeout{Duration: time.Duration(p.nextSeq + 1), Height: p.ehNext, Round: 0, Step: cstypes.RoundStepNewHeight}, "timeout", true)
	p.closeWAL()
	p.syncHeadOffline()
	p.note("REOPEN")
	p.startup()
	p.fullScan("after reopen")
	p.search(eh, false, "after reopen")
	if p.tornReopen && p.syncedAfterTorn && p.readAfterTorn {
		s.probeNontrivial = true
	}
}

// ---------------------------------------------------------------------------------------------------------------
// message generator

func fill(n int, seed uint64) []byte {
	b := make([]byte, n)
	x := seed*0x9E3779B97F4A7C15 + 0x1234567
	for i := range b {
		x ^= x << 13
		x ^= x >> 7
		x ^= x << 17
		b[i] = byte(x >> 24)
	}
	return b
}

func genTime(t *rapid.T) time.Time {
	return time.Unix(rapid.Int64Range(1, 1<<33).Draw(t, "sec"), rapid.Int64Range(0, 999_999_999).Draw(t, "nsec")).UTC()
}

func genBlockID(seed uint64) types.BlockID {
	return types.BlockID{Hash: fill(32, seed), PartSetHeader: types.PartSetHeader{Total: uint32(seed%7) + 1, Hash: fill(32, seed+1)}}
}

var nearMaxOverhead = -1

// stepLenFor returns the length of an EventDataRoundState step string that brings the record's payload to about
// target bytes (the time stamp's encoding varies by a byte or two).
func stepLenFor(target int) int {
	if nearMaxOverhead < 0 {
		const l0 = 1_000_000
		var buf bytes.Buffer
		m := &consensus.TimedWALMessage{Time: time.Unix(1_700_000_000, 500_000_000).UTC(),
			Msg: types.EventDataRoundState{Height: 1, Round: 1, Step: strings.Repeat("x", l0)}}
		if err := consensus.NewWALEncoder(&buf).Encode(m); err != nil {
			panic(err)
		}
		nearMaxOverhead = buf.Len() - 8 - l0
	}
	return target - nearMaxOverhead
}

func mkVote(seq int, height int64, round int32, typ int, forBlock bool, ts time.Time, peer p2p.ID) consensus.WALMessage {
	u := uint64(seq)
	v := &types.Vote{Type: tmproto.SignedMsgType(typ), Height: height, Round: round, Timestamp: ts,
		ValidatorAddress: fill(20, u), ValidatorIndex: int32(seq % 5), Signature: fill(64, u+7)}
	if forBlock {
		v.BlockID = genBlockID(u)
	}
	return consensus.VerifMsgInfo{Msg: &consensus.VoteMessage{Vote: v}, PeerID: peer}
}

func mkProposal(seq int, height int64, round, pol int32, ts time.Time, peer p2p.ID) consensus.WALMessage {
	u := uint64(seq)
	p := &types.Proposal{Type: tmproto.ProposalType, Height: height, Round: round, POLRound: pol,
		BlockID: genBlockID(u), Timestamp: ts, Signature: fill(64, u+9)}
	return consensus.VerifMsgInfo{Msg: &consensus.ProposalMessage{Proposal: p}, PeerID: peer}
}

func mkPart(seq int, height int64, round int32, n, naunts int, peer p2p.ID) consensus.WALMessage {
	u := uint64(seq)
	var aunts [][]byte
	for i := 0; i < naunts; i++ {
		aunts = append(aunts, fill(32, u+uint64(i)+20))
	}
	part := &types.Part{Index: uint32(seq % 9), Bytes: fill(n, u+3),
		Proof: merkle.Proof{Total: 9, Index: int64(seq % 9), LeafHash: fill(32, u+4), Aunts: aunts}}
	return consensus.VerifMsgInfo{Msg: &consensus.BlockPartMessage{Height: height, Round: round, Part: part}, PeerID: peer}
}

func genMsg(t *rapid.T, seq int, height int64) (consensus.WALMessage, string) {
	roll := rapid.IntRange(0, 99).Draw(t, "kind")
	peer := p2p.ID("")
	if roll%3 != 0 {
		peer = p2p.ID(fmt.Sprintf("peer%d", seq))
	}
	round := int32(roll % 4)
	switch {
	case roll < 22:
		return consensus.VerifTimeout{Duration: time.Duration(seq + 1), Height: height, Round: round,
			Step: cstypes.RoundStepType(1 + roll%8)}, "timeout"
	case roll < 40:
		return types.EventDataRoundState{Height: height, Round: round, Step: fmt.Sprintf("Step%d", seq)}, "roundstate"
	case roll < 58:
		kind := "vote-nil"
		if roll%4 != 0 {
			kind = "vote"
		}
		return mkVote(seq, height, round, 1+roll%2, roll%4 != 0, genTime(t), peer), kind
	case roll < 66:
		return mkProposal(seq, height, round, int32(roll%3)-1, genTime(t), peer), "proposal"
	case roll < 93:
		var n int
		kind := "part-small"
		switch {
		case roll < 80:
			n = rapid.IntRange(1, 300).Draw(t, "partlen")
		case roll < 88:
			n = rapid.IntRange(301, 8000).Draw(t, "partlen")
			kind = "part-medium"
		default:
			// around the group's 40960-byte write buffer and at the largest valid block part
			n = rapid.SampledFrom([]int{40000, 40700, 40960, 41000, 65535, 65536}).Draw(t, "partlen")
			kind = "part-64k"
		}
		return mkPart(seq, height, round, n, roll%4, peer), kind
	case roll < 97:
		n := rapid.IntRange(100_000, 900_000).Draw(t, "biglen")
		return types.EventDataRoundState{Height: height, Round: round, Step: string(bytes.Repeat([]byte{'a' + byte(seq%26)}, n))}, "large"
	default:
		// payload within a few bytes of the framing limit, on either side (the time stamp's size varies by a byte or two)
		d := rapid.IntRange(-6, 3).Draw(t, "delta")
		n := stepLenFor(refMaxPayload + d)
		return types.EventDataRoundState{Height: height, Round: round, Step: string(bytes.Repeat([]byte{'A' + byte(seq%26)}, n))}, "near-max"
	}
}

// ---------------------------------------------------------------------------------------------------------------
// the property

// scratchRoot: the crash model is simulated (the harness decides which bytes survive), so nothing is gained by
// real fsyncs; on a disk-backed TMPDIR they cost 10x the run time when many shards sync at once. Use tmpfs when
// there is one. VERIF_C15_SCRATCH overrides ("tmp" = $TMPDIR).
func scratchRoot() string {
	switch v := os.Getenv("VERIF_C15_SCRATCH"); {
	case v == "tmp":
		return ""
	case v != "":
		return v
	}
	if fi, err := os.Stat("/dev/shm"); err == nil && fi.IsDir() {
		if d, err := os.MkdirTemp("/dev/shm", "c15-probe-"); err == nil {
			os.Remove(d)
			return "/dev/shm"
		}
	}
	return ""
}

var scratch = scratchRoot()

// sweepStale removes scratch directories a killed run left behind (older than two hours; live shards are younger).
func sweepStale() {
	if scratch == "" {
		return
	}
	ents, err := os.ReadDir(scratch)
	if err != nil {
		return
	}
	for _, e := range ents {
		if !strings.HasPrefix(e.Name(), "c15-") {
			continue
		}
		if fi, err := e.Info(); err == nil && time.Since(fi.ModTime()) > 2*time.Hour {
			os.RemoveAll(filepath.Join(scratch, e.Name()))
		}
	}
}

func TestWALHistories(t *testing.T) {
	rapid.Check(t, func(t *rapid.T) {
		base, err := os.MkdirTemp(scratch, "c15-")
		if err != nil {
			t.Fatalf("VERIF-INFRA: %v", err)
		}
		s := &sim{t: t, base: base, classes: map[string]bool{}, ehNext: 1}
		defer func() {
			s.closeWAL()
			os.RemoveAll(base)
		}()
		s.dir = filepath.Join(base, "g0")
		if err := os.Mkdir(s.dir, 0o700); err != nil {
			t.Fatalf("VERIF-INFRA: %v", err)
		}
		s.path = filepath.Join(s.dir, "wal")
		s.headLimit = rapid.SampledFrom([]int64{120, 400, 1500, 6000, 50_000}).Draw(t, "headLimit")
		s.totalLimit = s.headLimit * rapid.SampledFrom([]int64{2, 3, 5, 12}).Draw(t, "totalFactor")
		if rapid.IntRange(0, 9).Draw(t, "nolimit") == 0 {
			s.totalLimit = 0 // 0 = unlimited
		}
		s.files = []*fileM{{}}
		s.note("head=%d total=%d:", s.headLimit, s.totalLimit)
		// The directory of a long-running node: the rolled files carry indices far from zero (the index only ever
		// grows; old files are discarded by the size limit) and a group takes its index range from the directory
		// listing when it is opened. The history starts with one or two rolled files at a drawn index, next to the
		// places where the number of digits in the file name changes.
		if aged := rapid.SampledFrom(agedIndices).Draw(t, "agedIndex"); aged >= 0 {
			s.age(t, aged)
		}
		s.startup()
		s.fullScan("initially")

		// real nodes keep far more than one height in the log (1 GB against a few MB per height), so the marker
		// of the previous height is always there to replay from; with limits this small it can be discarded:
		// then the height ends right away
		keepMarker := func() {
			if !s.tainted && !s.hasMarker(s.ehNext-1) {
				s.class("marker-discarded:height-ended")
				s.write(consensus.EndHeightMessage{Height: s.ehNext}, "endheight", true)
			}
		}
		// the group's ticker goroutine runs whenever it gets the group's mutex, i.e. also between two Write calls
		// the WAL makes for one operation: in 1 of 5 writes a tick is scheduled behind the 1st, 2nd or 3rd
		// low-level write (if the operation makes that many)
		armTick := func(t *rapid.T) {
			if rapid.IntRange(0, 4).Draw(t, "tickInWrite") == 0 {
				s.armTick = rapid.IntRange(1, 3).Draw(t, "tickAfterGroupWrite")
			}
		}
		writeOp := func(sync bool) func(*rapid.T) {
			return func(t *rapid.T) {
				msg, kind := genMsg(t, s.nextSeq, s.ehNext)
				armTick(t)
				nPrune := s.nPrune
				s.write(msg, kind, sync)
				if s.nPrune != nPrune {
					keepMarker()
				}
			}
		}
		endHeight := func(t *rapid.T) {
			armTick(t)
			nPrune := s.nPrune
			s.write(consensus.EndHeightMessage{Height: s.ehNext}, "endheight", true)
			if s.nPrune != nPrune {
				keepMarker()
			}
		}
		limits := func(t *rapid.T) {
			s.checkLimits()
			keepMarker()
		}
		scan := func(t *rapid.T) {
			s.fullScan("live")
			// a marker that exists, one that was discarded or never written, the next one
			var cands []int64
			items, _ := s.diskStream()
			for _, it := range items {
				if it.r != nil {
					if eh, ok := it.r.endHeight(); ok {
						cands = append(cands, eh)
					}
				}
			}
			cands = append(cands, 0, s.ehNext, s.ehNext-1, s.ehNext+1)
			if s.ehNext > 2 {
				cands = append(cands, rapid.Int64Range(1, s.ehNext-1).Draw(t, "anyheight"))
			}
			h := rapid.SampledFrom(cands).Draw(t, "searchHeight")
			s.search(h, rapid.Bool().Draw(t, "ignore"), "live")
		}
		crash := func(t *rapid.T) {
			if s.crashes >= 3 {
				t.Skip("crash budget used")
			}
			s.crash(t)
		}
		s.t = t
		t.Repeat(map[string]func(*rapid.T){
			"write1":      writeOp(false),
			"write2":      writeOp(false),
			"write3":      writeOp(false),
			"writeSync1":  writeOp(true),
			"writeSync2":  writeOp(true),
			"endHeight":   endHeight,
			"flushSync":   func(t *rapid.T) { s.flushAndSync() },
			"limits1":     limits,
			"limits2":     limits,
			"scan":        scan,
			"cleanReopen": func(t *rapid.T) { s.cleanReopen() },
			"readerOpen": func(t *rapid.T) {
				if s.live != nil {
					t.Skip("a reader is open")
				}
				h := int64(-1)
				if rapid.IntRange(0, 2).Draw(t, "viaSearch") == 0 && s.ehNext > 1 {
					h = rapid.Int64Range(0, s.ehNext-1).Draw(t, "readerFromHeight")
				}
				s.openLive(h)
				s.readLive(rapid.IntRange(0, 4).Draw(t, "readNow"))
			},
			// the shape catchupReplay has when the group's ticker fires during it: a reader is open and partly read,
			// the log is written to and a tick (rotation, discarding) runs, then the reader goes on
			"readerSpan": func(t *rapid.T) {
				if s.live == nil {
					s.openLive(-1)
					s.readLive(rapid.IntRange(0, 3).Draw(t, "readNow"))
				}
				for i, k := 0, rapid.IntRange(1, 4).Draw(t, "spanWrites"); i < k; i++ {
					msg, kind := genMsg(t, s.nextSeq, s.ehNext)
					s.write(msg, kind, rapid.Bool().Draw(t, "spanSync"))
				}
				s.checkLimits()
				keepMarker()
				if s.live != nil {
					n := rapid.IntRange(-1, 6).Draw(t, "readMore")
					if n == 0 {
						n = -1
					}
					s.readLive(n)
				}
			},
			"readerRead": func(t *rapid.T) {
				if s.live == nil {
					t.Skip("no reader open")
				}
				n := rapid.IntRange(-1, 6).Draw(t, "readMore")
				if n == 0 {
					n = -1
				}
				s.readLive(n)
			},
			"crash1": crash,
			"crash2": crash,
		})
		// the log must still be readable at the end of every history
		s.cleanReopen()

		nontrivial := (s.tornReopen && s.syncedAfterTorn && s.readAfterTorn) || s.probeNontrivial
		cls := []string{fmt.Sprintf("case:crashes=%d", s.crashes), fmt.Sprintf("case:nontrivial=%v", nontrivial)}
		if s.nRot > 0 {
			cls = append(cls, "case:rotated")
		}
		if s.nPrune > 0 {
			cls = append(cls, "case:pruned")
		}
		if s.nFlip > 0 {
			cls = append(cls, "case:flipped")
		}
		if s.nRepair > 0 {
			cls = append(cls, "case:repaired")
		}
		if s.nProbe > 0 {
			cls = append(cls, "case:enumerated-offsets")
		}
		var keys []string
		for k := range s.classes {
			keys = append(keys, k)
		}
		sort.Strings(keys)
		lib.Case(testName, lib.FP(strings.Join(s.history, " ")), nontrivial, cls...)
		if nontrivial && lib.WantSample(testName) {
			hist := s.history
			if len(hist) > 60 {
				hist = hist[:60]
			}
			lib.Sample(testName, map[string]interface{}{"history": strings.Join(hist, " "), "classes": keys,
				"offsets_probed": s.nProbe})
		}
	})
}

// agedIndices: -1 = a fresh directory; otherwise the index of the newest rolled file that exists when the history
// starts (names are "%03d": wal.009 -> wal.010, wal.099 -> wal.100, wal.999 -> wal.1000, wal.9999 -> wal.10000, ...).
var agedIndices = []int{-1, -1, -1, -1, 0, 8, 9, 98, 99, 998, 999, 1000, 1001, 9998, 9999, 10000, 99998, 99999, 100000, 1234567}

// age prepares rolled files written by the real WAL: records are written and synced, the log is stopped, and the
// head is given the name RotateFile would have given it at that index.
func (s *sim) age(t *rapid.T, newest int) {
	n := 1
	if newest > 0 && rapid.Bool().Draw(t, "twoAgedFiles") {
		n = 2
	}
	for idx := newest - n + 1; idx <= newest; idx++ {
		s.open()
		for i, k := 0, rapid.IntRange(0, 3).Draw(t, "agedRecords"); i < k; i++ {
			if rapid.IntRange(0, 2).Draw(t, "agedMarker") == 0 {
				s.write(consensus.EndHeightMessage{Height: s.ehNext}, "endheight", true)
			} else {
				msg, kind := genMsg(t, s.nextSeq, s.ehNext)
				if kind == "large" || kind == "near-max" {
					msg, kind = consensus.VerifTimeout{Duration: time.Duration(s.nextSeq + 1), Height: s.ehNext, Step: cstypes.RoundStepPropose}, "timeout"
				}
				s.write(msg, kind, true)
			}
		}
		s.closeWAL()
		s.syncHeadOffline()
		h := s.head()
		h.idx, h.name = idx, fmt.Sprintf("wal.%03d", idx)
		if err := os.Rename(s.path, filepath.Join(s.dir, h.name)); err != nil {
			s.infra("rename: %v", err)
		}
		s.files = append(s.files, &fileM{})
		s.headComplete, s.headPartial, s.headSize = 0, 0, 0
	}
	s.class(fmt.Sprintf("aged:newest-index-digits=%d", len(strconv.Itoa(newest))))
	s.note("AGED(%d files, newest wal.%03d)", n, newest)
}

// crash: keep what is on disk, cut the unacknowledged tail at every offset of short tails (on copies) and at a
// drawn offset (main line), optionally flip a byte, restart.
func (s *sim) crash(t *rapid.T) {
	s.crashes++
	// what the node was writing when it died: a few records nobody acknowledged
	for i, n := 0, rapid.SampledFrom([]int{0, 0, 1, 1, 2, 3}).Draw(t, "unacked"); i < n; i++ {
		if rapid.IntRange(0, 4).Draw(t, "unackedMarker") == 0 {
			s.write(consensus.EndHeightMessage{Height: s.ehNext}, "endheight", false)
		} else {
			msg, kind := genMsg(t, s.nextSeq, s.ehNext)
			s.write(msg, kind, false)
		}
	}
	inflight := rapid.IntRange(0, 3).Draw(t, "inflight") != 0
	if inflight {
		// the crash hits FlushAndSync between the flush and the fsync: everything written is with the operating
		// system, nothing new is acknowledged
		if err := s.wal.Group().VerifC15FlushNoSync(); err != nil {
			s.infra("flush: %v", err)
		}
	}
	s.syncHead()
	lower := s.ackedEnd()
	upper := int(s.headSize)
	s.note("CRASH[%d..%d]", lower, upper)

	// enumeration on copies
	var offs []int
	small := s.dirBytes() <= 400_000
	full := 72
	if lib.Thorough() {
		full = 200
	}
	if upper-lower <= full && small {
		for o := lower; o <= upper; o++ {
			offs = append(offs, o)
		}
		if upper > lower {
			s.class("crash:tail-enumerated-fully")
		}
	} else {
		// every offset up to 12 bytes into each record of the tail (checksum, length, first data bytes) and the last
		// byte of each record
		seen := map[int]bool{}
		budget := 26
		if !small {
			budget = 5
		}
		bs := s.boundaries()
		if s.headPartial > 0 {
			bs = append(bs, upper+1) // the tail ends inside a record
		}
		for _, d := range []int{1, 2, 3, 0, 4, 7, 8, 9, -1, 5, 6, 10, 11, 12} {
			for _, b := range bs {
				o := b + d
				if o >= lower && o <= upper && !seen[o] && len(offs) < budget {
					seen[o] = true
					offs = append(offs, o)
				}
			}
		}
		s.class("crash:tail-enumerated-near-boundaries")
	}
	for _, o := range offs {
		s.probe(o)
	}

	// main line (the draws are relative: record sizes vary by a byte or two with the wall-clock time stamps)
	o := lower
	if upper > lower {
		bs := s.boundaries()
		if rapid.IntRange(0, 3).Draw(t, "nearBoundary") != 0 {
			b := bs[rapid.IntRange(0, len(bs)-1).Draw(t, "boundary")]
			if b < lower {
				b = lower
			}
			o = b + rapid.SampledFrom([]int{0, 1, 2, 3, 4, 5, 7, 8, 9, 12, -1}).Draw(t, "delta")
		} else {
			o = lower + (upper-lower)*rapid.IntRange(0, 1000).Draw(t, "permille")/1000
		}
		if o < lower {
			o = lower
		}
		if o > upper {
			o = upper
		}
	}
	rem := s.remnantAt(o)
	old := *s
	n := s.cloneAt(o, "")
	gen := s.gen
	*s = *n
	s.gen = gen
	old.closeWAL()
	os.RemoveAll(old.dir)
	s.class("crash:" + remClass(rem))
	if upper == lower {
		s.class("crash:no-unsynced-tail")
	}
	s.note("CUT@%d(rem %d)", o, rem)

	if rapid.IntRange(0, 3).Draw(t, "flip") == 0 {
		s.flip(t)
	}
	s.startup()
	s.fullScan("after crash restart")
}

// flip changes one byte of one file (drawn record, drawn field).
func (s *sim) flip(t *rapid.T) {
	type target struct {
		f   *fileM
		i   int
		off int
	}
	var targets []target
	for _, f := range s.files {
		off := 0
		for i, sg := range f.segs {
			// a frame that already has a changed byte is left alone: a second change could undo the first
			if sg.size() > 0 && !(sg.r == nil && sg.why == "flip") {
				targets = append(targets, target{f, i, off})
			}
			off += sg.size()
		}
	}
	if len(targets) == 0 {
		return
	}
	// prefer the newest records: that is where the start-up path reads
	var tg target
	var inNumbered []target
	for _, x := range targets {
		if x.f.name != "" {
			inNumbered = append(inNumbered, x)
		}
	}
	if len(inNumbered) > 0 && rapid.IntRange(0, 2).Draw(t, "flipNumbered") == 0 {
		tg = inNumbered[rapid.IntRange(0, len(inNumbered)-1).Draw(t, "flipSeg")]
	} else if rapid.Bool().Draw(t, "flipRecent") {
		k := len(targets) - 1 - rapid.IntRange(0, min(3, len(targets)-1)).Draw(t, "flipBack")
		tg = targets[k]
	} else {
		tg = targets[rapid.IntRange(0, len(targets)-1).Draw(t, "flipSeg")]
	}
	sg := tg.f.segs[tg.i]
	size := sg.size()
	var pos int
	where := rapid.SampledFrom([]string{"crc", "len", "first", "last", "any"}).Draw(t, "flipWhere")
	switch {
	case where == "crc" && size >= 4:
		pos = rapid.IntRange(0, 3).Draw(t, "p")
	case where == "len" && size >= 8:
		pos = rapid.IntRange(4, 7).Draw(t, "p")
	case where == "first" && size >= 9:
		pos = 8
	case where == "last":
		pos = size - 1
	default:
		pos = rapid.IntRange(0, size-1).Draw(t, "p")
		where = "any"
	}
	mask := byte(rapid.IntRange(1, 255).Draw(t, "mask"))
	name := tg.f.name
	b := s.readFile(name)
	b[tg.off+pos] ^= mask
	p := s.path
	if name != "" {
		p = filepath.Join(s.dir, name)
	}
	if err := os.WriteFile(p, b, 0o600); err != nil {
		s.infra("flip: %v", err)
	}
	j := append([]byte(nil), b[tg.off:tg.off+size]...)
	if sg.r != nil {
		tg.f.segs[tg.i] = seg{junk: j, why: "flip", framed: pos < 4 || pos >= 8, whole: true}
	} else {
		tg.f.segs[tg.i].junk = j
		tg.f.segs[tg.i].why = "flip"
	}
	s.tainted = true
	s.nFlip++
	s.headComplete = len(s.head().segs)
	place := "numbered"
	if name == "" {
		place = "head"
	}
	s.class("flip:" + where)
	s.class("flip:in-" + place)
	s.note("FLIP(%s seg %d +%d)", place, tg.i, pos)
}
