// C15 at node level — a crash that leaves a partial record inside the unfinished height, a restart through the real
// consensus.State.OnStart (WAL catch-up replay and its repair loop), further synced writes, and a later reader.
//
// The node is verif/pnode's single validator (real FilePV, real BaseWAL, real Handshaker, real State.Start with the
// real receiveRoutine, harness-owned timeouts). It runs for a drawn number of timeouts and is stopped cleanly (so all
// it logged is on disk); the crash is what it was logging at that instant - the first k bytes of a record, optionally
// behind a whole unacknowledged one - appended to the head file. Then: restart, commit one or two more heights,
// clean stop - one to four such crash/restart cycles on the same WAL directory - and the C15 statement itself as
// oracle (pnode.CheckWALReadable: every record whose synced write was acknowledged in this or ANY EARLIER incarnation
// is returned by a fresh reader over the group, in order, which ends with EOF; SearchForEndHeight finds every marker
// written), plus an independent witness: every signature the key ever released (journalled by the signer wrapper) is
// in a vote or proposal the reader returns.
package c15

import (
	"fmt"
	"io"
	"os"
	"testing"
	"time"

	"pgregory.net/rapid"

	"github.com/tendermint/tendermint/consensus"
	cstypes "github.com/tendermint/tendermint/consensus/types"

	"verif/lib"
	"verif/pnode"
)

const nodeTest = "TestNodeRestartAfterTornTail"

func fireUntil(n *pnode.PNode, target int64, maxFires int) (alive, reached bool, fires int) {
	for i := 0; i < maxFires; i++ {
		if n.BlockStore.Height() >= target {
			return true, true, i
		}
		fired, ok := n.Fire()
		if !ok {
			return false, false, i
		}
		if !fired {
			return true, false, i
		}
	}
	return true, n.BlockStore.Height() >= target, maxFires
}

// signaturesInWAL reads the whole group and returns the signatures of the votes and proposals in it.
func signaturesInWAL(path string) (map[string]bool, int, error) {
	w, err := consensus.NewWAL(path)
	if err != nil {
		return nil, 0, err
	}
	g := w.Group()
	defer func() {
		g.Close()
		g.Head.Close() //nolint
	}()
	gr, err := g.NewReader(g.MinIndex())
	if err != nil {
		return nil, 0, err
	}
	defer gr.Close()
	out, term := drain(gr)
	sigs := map[string]bool{}
	for _, m := range out {
		if mi, ok := m.Msg.(consensus.VerifMsgInfo); ok {
			switch x := mi.Msg.(type) {
			case *consensus.VoteMessage:
				sigs[string(x.Vote.Signature)] = true
			case *consensus.ProposalMessage:
				sigs[string(x.Proposal.Signature)] = true
			}
		}
	}
	return sigs, len(out), term
}

func TestNodeRestartAfterTornTail(t *testing.T) {
	rapid.Check(t, func(t *rapid.T) {
		h := pnode.GenHistory(t)
		p, err := h.NewNodeHome()
		if err != nil {
			t.Fatalf("VERIF-INFRA: %v", err)
		}
		defer p.Cleanup()
		n, crashed, err := pnode.Boot(p, -1)
		// whatever happens, no incarnation may outlive the directory (the WAL group's own ticker would find it gone)
		defer func() {
			if n != nil {
				n.Stop()
			}
		}()
		if err != nil || crashed != nil {
			t.Fatalf("VERIF-INFRA: first boot: %v %v", err, crashed)
		}
		var cls []string
		hist := ""
		stopAndCheck := func(n *pnode.PNode, when string, signedFrom int) {
			n.Stop()
			// the receive routine stops the WAL (flush, sync, close) on its way out; pnode waits 5 s for that, which a
			// badly loaded machine can exceed - and the crash bytes must not be appended before the log is closed
			select {
			case <-n.CS.VerifDone():
			case <-time.After(3 * time.Minute):
				t.Fatalf("VERIF-INFRA: the stopped node's receive routine did not finish within 3 minutes")
			}
			if v := pnode.CheckWALReadable(n); v != "" {
				t.Fatalf("C15 violated %s: %s\nhistory: %s\nnode log: %v", when, v, hist, n.Errors())
			}
			sigs, nrec, term := signaturesInWAL(p.WALFile())
			if term != io.EOF {
				t.Fatalf("C15 violated %s: a reader over the WAL ends with %v after %d records\nhistory: %s", when, term, nrec, hist)
			}
			// every signature released so far, in this or an earlier incarnation ("any later reader")
			_ = signedFrom
			for _, r := range p.SignLog {
				if !sigs[string(r.Sig)] {
					t.Fatalf("C15 violated %s: the node signed %v and logged it before sending (WriteSync), but no reader returns it (%d records readable)\nhistory: %s\nnode log: %v",
						when, r, nrec, hist, n.Errors())
				}
			}
		}
		// run to an arbitrary point: somewhere inside a height
		fires := rapid.IntRange(0, 30).Draw(t, "fires")
		for i := 0; i < fires; i++ {
			if fired, ok := n.Fire(); !ok || !fired {
				t.Fatalf("VERIF-INFRA: node stopped running before any crash (alive=%v)", ok)
			}
		}
		hist += fmt.Sprintf("run %d timeouts -> height %d; ", fires, n.BlockStore.Height())
		stopAndCheck(n, "after the first clean stop", 0)

		cycles := rapid.SampledFrom([]int{1, 2, 2, 3, 3, 4}).Draw(t, "cycles")
		ackedAfterTorn := 0
		repaired := 0
		for c := 0; c < cycles; c++ {
			// what the node was logging when it died
			var tail []byte
			if rapid.IntRange(0, 2).Draw(t, "wholeFirst") == 0 {
				// a whole record nobody acknowledged: a stale timeout (replay ignores it)
				f, err := encodeAt(genTime(t), consensus.VerifTimeout{Duration: time.Millisecond, Height: 0, Round: 0, Step: cstypes.RoundStepPropose})
				if err != nil {
					t.Fatal(err)
				}
				tail = append(tail, f...)
				cls = append(cls, "whole-unacked-record-before-the-torn-one")
			}
			msg, kind := genMsg(t, 1000+c, n.BlockStore.Height()+1)
			if kind == "large" || kind == "near-max" {
				msg, kind = consensus.EndHeightMessage{Height: n.BlockStore.Height() + 1}, "endheight"
			}
			frame, err := encodeAt(genTime(t), msg)
			if err != nil {
				t.Fatal(err)
			}
			var k int
			switch rapid.SampledFrom([]string{"1-3", "4-7", "8+", "8+", "all-but-one"}).Draw(t, "torn") {
			case "1-3":
				k = rapid.IntRange(1, 3).Draw(t, "k")
			case "4-7":
				k = rapid.IntRange(4, 7).Draw(t, "k")
			case "8+":
				k = rapid.IntRange(8, len(frame)-1).Draw(t, "k")
			default:
				k = len(frame) - 1
			}
			tail = append(tail, frame[:k]...)
			f, err := os.OpenFile(p.WALFile(), os.O_WRONLY|os.O_APPEND, 0o600)
			if err != nil {
				t.Fatalf("VERIF-INFRA: %v", err)
			}
			if _, err := f.Write(tail); err != nil {
				t.Fatalf("VERIF-INFRA: %v", err)
			}
			f.Close()
			cls = append(cls, "torn:"+remClass(k), "torn-record:"+kind)
			hist += fmt.Sprintf("crash leaves %d of %d bytes of a %s record (tail %d bytes); ", k, len(frame), kind, len(tail))

			signedFrom := len(p.SignLog)
			before := n.BlockStore.Height()
			n, crashed, err = pnode.Boot(p, -1)
			if err != nil || crashed != nil {
				t.Fatalf("C15 violated: the node does not start on a log with a torn tail: %v %v\nhistory: %s\nnode log: %v", err, crashed, hist, n.Errors())
			}
			if n.Repaired {
				repaired++
			}
			hist += fmt.Sprintf("restart (repaired=%v) at height %d; ", n.Repaired, n.BlockStore.Height())
			target := before + int64(rapid.IntRange(1, 2).Draw(t, "more"))
			alive, reached, fired := fireUntil(n, target, 300)
			if !alive || !reached {
				t.Fatalf("after the restart the node does not go on committing (alive=%v, height %d, wanted %d, %d timeouts)\nhistory: %s\nnode log: %v",
					alive, n.BlockStore.Height(), target, fired, hist, n.Errors())
			}
			// and a little into the next height
			for i, x := 0, rapid.IntRange(0, 3).Draw(t, "extra"); i < x; i++ {
				n.Fire()
			}
			hist += fmt.Sprintf("%d timeouts -> height %d, %d records acknowledged; ", fired, n.BlockStore.Height(), len(n.WAL.Acked))
			ackedAfterTorn += len(n.WAL.Acked)
			stopAndCheck(n, fmt.Sprintf("after restart %d", c+1), signedFrom)
		}
		cls = append(cls, fmt.Sprintf("cycles:%d", cycles), fmt.Sprintf("repairs:%d", repaired))
		lib.Case(nodeTest, lib.FP(hist), ackedAfterTorn > 0, cls...)
		if lib.WantSample(nodeTest) {
			lib.Sample(nodeTest, map[string]interface{}{"history": hist})
		}
	})
}
