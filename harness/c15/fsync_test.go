// C15 — "every record whose synced write returned success" presupposes that success means the bytes were fsynced.
// The crash model of the other tests (the harness decides which bytes survive) cannot see an fsync, so this test
// observes it directly: the WAL's head file is a symbolic link to /dev/null, where write(2) succeeds and fsync(2)
// fails with EINVAL. A WriteSync / FlushAndSync that returns nil although bytes were handed to the WAL since the last
// fsync attempt has therefore acknowledged them without an fsync.
package c15

import (
	"errors"
	"fmt"
	"os"
	"path/filepath"
	"strings"
	"syscall"
	"testing"
	"time"

	"pgregory.net/rapid"

	"github.com/tendermint/tendermint/consensus"
	"github.com/tendermint/tendermint/libs/autofile"

	"verif/lib"
)

const fsyncTest = "TestSyncedWriteIssuesFsync"

func devNullFsyncFails() bool {
	f, err := os.OpenFile(os.DevNull, os.O_RDWR, 0)
	if err != nil {
		return false
	}
	defer f.Close()
	return errors.Is(f.Sync(), syscall.EINVAL)
}

func TestSyncedWriteIssuesFsync(t *testing.T) {
	if !devNullFsyncFails() {
		lib.Note("c15-fsync-detector", "fsync on /dev/null does not fail with EINVAL on this platform: TestSyncedWriteIssuesFsync did not run")
		t.Skip("no fsync detector on this platform")
	}
	rapid.Check(t, func(t *rapid.T) {
		dir, err := os.MkdirTemp(scratch, "c15-fsync-")
		if err != nil {
			t.Fatalf("VERIF-INFRA: %v", err)
		}
		defer os.RemoveAll(dir)
		path := filepath.Join(dir, "wal")
		if err := os.Symlink(os.DevNull, path); err != nil {
			t.Fatalf("VERIF-INFRA: %v", err)
		}
		// not started: Start would write #ENDHEIGHT 0 with WriteSync and (rightly) fail; the limit checks are not
		// involved here
		w, err := consensus.NewWAL(path, autofile.GroupCheckDuration(time.Hour))
		if err != nil {
			t.Fatalf("VERIF-INFRA: %v", err)
		}
		defer func() {
			w.Group().Close()
			w.Group().Head.Close() //nolint
		}()
		g := w.Group()
		dirty := false // bytes were handed to the log since the last fsync attempt
		var hist []string
		classes := map[string]bool{}
		bypass := false
		nops := rapid.IntRange(1, 14).Draw(t, "ops")
		for i := 0; i < nops; i++ {
			op := rapid.SampledFrom([]string{"write", "writeSync", "writeSync", "flushAndSync"}).Draw(t, "op")
			if op == "flushAndSync" {
				buffered := g.Buffered()
				err := w.FlushAndSync()
				hist = append(hist, fmt.Sprintf("FS(buffered %d)->%v", buffered, err != nil))
				if dirty {
					if err == nil {
						t.Fatalf("(1) FlushAndSync returned nil although records were written since the last fsync (write buffer held %d bytes): "+
							"they are acknowledged as synced without an fsync\nhistory: %s", buffered, strings.Join(hist, " "))
					}
					if !errors.Is(err, syscall.EINVAL) {
						t.Fatalf("VERIF-INFRA: unexpected error from FlushAndSync on /dev/null: %v", err)
					}
					if buffered == 0 {
						classes["sync-with-empty-write-buffer"] = true
						bypass = true
					}
				}
				if err != nil {
					dirty = false
				}
				continue
			}
			// record sizes on both sides of the group's 40960-byte write buffer, and ordinary ones
			var msg consensus.WALMessage
			var kind string
			if rapid.IntRange(0, 2).Draw(t, "big") == 0 {
				n := rapid.SampledFrom([]int{20000, 40000, 40700, 40800, 40960, 41000, 50000, 65535, 65536}).Draw(t, "partlen")
				msg, kind = mkPart(i, 1, 0, n, 2, ""), fmt.Sprintf("part-%d", n)
			} else {
				msg, kind = genMsg(t, i, 1)
			}
			free := 40960 - g.Buffered()
			if op == "write" {
				err := w.Write(msg)
				hist = append(hist, fmt.Sprintf("W(%s)->%v", kind, err != nil))
				if err == nil {
					dirty = true
				} else if !strings.Contains(err.Error(), "too big") {
					t.Fatalf("VERIF-INFRA: Write: %v", err)
				}
				continue
			}
			err := w.WriteSync(msg)
			hist = append(hist, fmt.Sprintf("WS(%s, free buffer %d)->%v", kind, free, err != nil))
			if err != nil && strings.Contains(err.Error(), "too big") {
				continue
			}
			if err == nil {
				t.Fatalf("(1) WriteSync(%s) returned nil: the record is acknowledged as synced, but no fsync of the head file was issued "+
					"(free write buffer before the call: %d bytes)\nhistory: %s", kind, free, strings.Join(hist, " "))
			}
			if !errors.Is(err, syscall.EINVAL) {
				t.Fatalf("VERIF-INFRA: unexpected error from WriteSync on /dev/null: %v", err)
			}
			if g.Buffered() == 0 {
				frame, _ := encodeAt(tm0, msg)
				if len(frame) > free {
					classes["synced-record-bypassed-the-write-buffer"] = true
					bypass = true
				}
			}
			dirty = false
		}
		var cls []string
		for k := range classes {
			cls = append(cls, k)
		}
		lib.Case(fsyncTest, lib.FP(strings.Join(hist, " ")), bypass, cls...)
		if bypass && lib.WantSample(fsyncTest) {
			lib.Sample(fsyncTest, map[string]interface{}{"history": strings.Join(hist, " ")})
		}
	})
}
