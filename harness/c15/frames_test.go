package c15

import (
	"bytes"
	"encoding/binary"
	"fmt"
	"hash/crc32"
	"io"
	"os"
	"path/filepath"
	"reflect"
	"strings"
	"testing"
	"testing/iotest"
	"time"

	"github.com/tendermint/tendermint/consensus"
	cstypes "github.com/tendermint/tendermint/consensus/types"
	"github.com/tendermint/tendermint/libs/autofile"
	"github.com/tendermint/tendermint/types"
	"pgregory.net/rapid"

	"verif/lib"
)

func encodeAt(tm time.Time, msg consensus.WALMessage) ([]byte, error) {
	var buf bytes.Buffer
	err := consensus.NewWALEncoder(&buf).Encode(&consensus.TimedWALMessage{Time: tm, Msg: msg})
	return buf.Bytes(), err
}

// TestReferenceAgrees guards the oracle's own frame parser: on every frame the real encoder produces it finds one
// whole frame of exactly that size; every proper prefix is "short"; every single-byte change is "bad" or "short".
func TestReferenceAgrees(t *testing.T) {
	if consensus.VerifC15MaxMsgSizeBytes != refMaxPayload {
		t.Fatalf("framing limit: code %d, documented %d", consensus.VerifC15MaxMsgSizeBytes, refMaxPayload)
	}
	rapid.Check(t, func(t *rapid.T) {
		seq := rapid.IntRange(0, 1000).Draw(t, "seq")
		msg, kind := genMsg(t, seq, rapid.Int64Range(1, 50).Draw(t, "height"))
		if kind == "large" || kind == "near-max" {
			msg, kind = consensus.EndHeightMessage{Height: int64(seq)}, "endheight"
		}
		frame, err := encodeAt(genTime(t), msg)
		if err != nil {
			t.Fatalf("encode %s: %v", kind, err)
		}
		n, st := parseFrame(frame)
		if st != frameOK || n != len(frame) {
			t.Fatalf("reference parser on a genuine %s frame of %d bytes: n=%d status=%d", kind, len(frame), n, st)
		}
		cut := rapid.IntRange(0, len(frame)-1).Draw(t, "cut")
		if _, st := parseFrame(frame[:cut]); st != frameShort {
			t.Fatalf("prefix of %d/%d bytes: status %d", cut, len(frame), st)
		}
		pos := rapid.IntRange(0, len(frame)-1).Draw(t, "pos")
		mask := byte(rapid.IntRange(1, 255).Draw(t, "mask"))
		d := append([]byte(nil), frame...)
		d[pos] ^= mask
		if _, st := parseFrame(d); st == frameOK {
			t.Fatalf("changed byte %d of a %s frame and the reference parser still accepts it", pos, kind)
		}
		lib.Case("TestReferenceAgrees", lib.FP(kind, len(frame), cut, pos, mask), cut > 0, "kind:"+kind)
	})
}

// TestFrameSizeBoundary: the encoder accepts a record iff its payload is at most the framing limit, and whatever it
// accepts comes back from a reader over a real autofile group - at every payload size around the limit.
func TestFrameSizeBoundary(t *testing.T) {
	dir, err := os.MkdirTemp(scratch, "c15-size-")
	if err != nil {
		t.Fatalf("VERIF-INFRA: %v", err)
	}
	defer os.RemoveAll(dir)
	g, err := autofile.OpenGroup(filepath.Join(dir, "wal"), autofile.GroupCheckDuration(time.Hour))
	if err != nil {
		t.Fatalf("VERIF-INFRA: %v", err)
	}
	defer g.Head.Close()
	tm := time.Unix(1_700_000_000, 500_000_000).UTC() // same encoded size as the time stepLenFor measures with
	var want []consensus.WALMessage
	var frames [][]byte
	for d := -3; d <= 3; d++ {
		msg := types.EventDataRoundState{Height: 7, Round: 1, Step: strings.Repeat(string(rune('a'+d+3)), stepLenFor(refMaxPayload+d))}
		frame, err := encodeAt(tm, msg)
		payload := len(frame) - 8
		if err != nil {
			// refused: must be over the limit. The size is what was asked for (the probe time has the same encoded size).
			if d <= 0 {
				t.Fatalf("payload of %d bytes (limit %+d) refused: %v", refMaxPayload+d, d, err)
			}
			lib.Case("TestFrameSizeBoundary", lib.FP(d), true, "refused")
			continue
		}
		if payload != refMaxPayload+d {
			t.Fatalf("harness: asked for a payload of %d, got %d", refMaxPayload+d, payload)
		}
		if d > 0 {
			t.Fatalf("payload of %d bytes (limit +%d) accepted by the encoder", payload, d)
		}
		if err := consensus.NewWALEncoder(g).Encode(&consensus.TimedWALMessage{Time: tm, Msg: msg}); err != nil {
			t.Fatalf("encode into group: %v", err)
		}
		want = append(want, msg)
		frames = append(frames, frame)
		lib.Case("TestFrameSizeBoundary", lib.FP(d), true, "accepted")
	}
	if err := g.FlushAndSync(); err != nil {
		t.Fatal(err)
	}
	gr, err := g.NewReader(0)
	if err != nil {
		t.Fatal(err)
	}
	defer gr.Close()
	out, term := drain(gr)
	if term != io.EOF {
		t.Fatalf("(1) records the encoder accepted (payloads limit-3..limit) are not all readable: %d of %d returned, then %v", len(out), len(want), term)
	}
	if len(out) != len(want) {
		t.Fatalf("%d records written, %d returned", len(want), len(out))
	}
	for i := range out {
		if !reflect.DeepEqual(out[i].Msg, want[i]) {
			t.Fatalf("record %d differs", i)
		}
		if b, _ := encodeAt(out[i].Time, out[i].Msg); !bytes.Equal(b, frames[i]) {
			t.Fatalf("record %d re-encodes differently", i)
		}
	}
}

// ---------------------------------------------------------------------------------------------------------------
// native fuzz target

type countingReader struct {
	r io.Reader
	n int
}

func (c *countingReader) Read(p []byte) (int, error) {
	n, err := c.r.Read(p)
	c.n += n
	return n, err
}

var tm0 = time.Unix(1_600_000_000, 1).UTC()

func seedMessages() []consensus.WALMessage {
	return []consensus.WALMessage{
		consensus.EndHeightMessage{Height: 0},
		consensus.EndHeightMessage{Height: 1 << 40},
		consensus.VerifTimeout{Duration: 3 * time.Second, Height: 5, Round: 2, Step: cstypes.RoundStepPrevoteWait},
		types.EventDataRoundState{Height: 9, Round: 0, Step: "RoundStepPropose"},
		mkVote(3, 5, 1, 1, true, tm0, "peer3"), mkVote(4, 5, 1, 2, false, tm0, ""),
		mkProposal(5, 6, 0, -1, tm0, "peer5"), mkPart(6, 6, 0, 1, 0, ""), mkPart(7, 6, 0, 3000, 3, "peer7"),
	}
}

func fuzzSeeds() [][]byte {
	tm := time.Unix(1_650_000_000, 999_999_999).UTC()
	var seeds [][]byte
	var all []byte
	for _, m := range seedMessages() {
		f, err := encodeAt(tm, m)
		if err != nil {
			panic(err)
		}
		seeds = append(seeds, f)
		all = append(all, f...)
	}
	seeds = append(seeds, all)
	first := seeds[0]
	for cut := 0; cut <= 12 && cut < len(first); cut++ {
		seeds = append(seeds, append(append([]byte(nil), all...), first[:cut]...)) // torn tail of every header length
	}
	seeds = append(seeds, all[:len(all)-1], all[:len(all)/2])
	for _, pos := range []int{0, 3, 4, 7, 8, len(first) - 1} {
		d := append([]byte(nil), all...)
		d[pos] ^= 0x40
		seeds = append(seeds, d)
	}
	// headers only: zero length, length over the limit, length just at the limit without data
	h := make([]byte, 8)
	seeds = append(seeds, append([]byte(nil), h...))
	binary.BigEndian.PutUint32(h[4:], refMaxPayload+1)
	seeds = append(seeds, append([]byte(nil), h...))
	binary.BigEndian.PutUint32(h[4:], refMaxPayload)
	seeds = append(seeds, append([]byte(nil), h...))
	// a frame with a correct checksum around bytes that are no TimedWALMessage / a non-canonical one
	for _, payload := range [][]byte{{0xff, 0xff, 0xff}, {}, {0x12, 0x00}, {0x0a, 0x00, 0x12, 0x02, 0x22, 0x00}} {
		f := make([]byte, 8+len(payload))
		binary.BigEndian.PutUint32(f[0:], crc32.Checksum(payload, castagnoli))
		binary.BigEndian.PutUint32(f[4:], uint32(len(payload)))
		copy(f[8:], payload)
		seeds = append(seeds, f)
	}
	return seeds
}

// decodeAll runs the decoder over data through the chosen kind of reader and checks that every returned message
// re-encodes to exactly the bytes consumed for it; it must never panic.
func decodeAll(t testing.TB, data []byte, oneByte bool) (n int, term error) {
	var src io.Reader = bytes.NewReader(data)
	if oneByte {
		src = iotest.OneByteReader(src)
	}
	cr := &countingReader{r: src}
	dec := consensus.NewWALDecoder(cr)
	for {
		start := cr.n
		m, err := dec.Decode()
		if err != nil {
			if m != nil {
				t.Fatalf("message together with error %v", err)
			}
			return n, err
		}
		if m == nil {
			t.Fatalf("neither message nor error")
		}
		consumed := data[start:cr.n]
		re, err := encodeAt(m.Time, m.Msg)
		if err != nil {
			t.Fatalf("(2) decoder returned a message the encoder refuses: %v", err)
		}
		if !bytes.Equal(re, consumed) {
			t.Fatalf("(2) decoder returned a message whose encoding (%d bytes) differs from the %d bytes it consumed at offset %d", len(re), len(consumed), start)
		}
		if k, st := parseFrame(consumed); st != frameOK || k != len(consumed) {
			t.Fatalf("(2) decoder returned a message for bytes that are not one whole frame (offset %d, %d bytes)", start, len(consumed))
		}
		n++
	}
}

// FuzzWALDecoder: arbitrary bytes never make the decoder panic or return a message that is not literally in the
// input. The seed corpus runs as an ordinary test in the quick tier; `go test -fuzz FuzzWALDecoder` explores.
func FuzzWALDecoder(f *testing.F) {
	for _, s := range fuzzSeeds() {
		f.Add(s, false)
		f.Add(s, true)
	}
	f.Fuzz(func(t *testing.T, data []byte, oneByte bool) {
		if len(data) > 3<<20 {
			return
		}
		n, term := decodeAll(t, data, oneByte)
		if term != io.EOF && !consensus.IsDataCorruptionError(term) {
			t.Fatalf("decoder ended with an error that is neither EOF nor DataCorruptionError: %v", term)
		}
		// reference: the records returned are exactly the leading whole frames (a frame may still be refused for
		// its content, never accepted beyond the reference's count)
		ref := 0
		for off := 0; off < len(data); {
			k, st := parseFrame(data[off:])
			if st != frameOK {
				break
			}
			ref++
			off += k
		}
		if n > ref {
			t.Fatalf("(2) decoder returned %d records, the input starts with only %d whole frames", n, ref)
		}
		lib.Case("FuzzWALDecoder", lib.FP(len(data), n, oneByte, fmt.Sprint(term)), n > 0 && term != io.EOF,
			fmt.Sprintf("records>0:%v", n > 0), fmt.Sprintf("clean-eof:%v", term == io.EOF))
	})
}
