// C15, replay clause, for a node that enters consensus WITHOUT the WAL catch-up (after block sync / state sync:
// Reactor.SwitchToConsensus(state, skipWAL=true)): it logs the first height it takes part in behind whatever marker
// its old WAL ends with; a crash in that height and a normal restart must bring back what it had logged.
package c15

import (
	"fmt"
	"testing"
	"time"

	"pgregory.net/rapid"

	"github.com/tendermint/tendermint/types"

	"verif/lib"
	"verif/pnode"
)

const syncTest = "TestReplayAfterSyncedStart"

func TestReplayAfterSyncedStart(t *testing.T) {
	rapid.Check(t, func(t *rapid.T) {
		h := pnode.GenHistory(t)
		h.AppRollback = 0
		downAfter := int64(rapid.IntRange(1, 2).Draw(t, "downAfterHeights"))
		gap := int64(rapid.IntRange(1, 3).Draw(t, "syncedHeights"))
		labels, err := pnode.SyncedStartLabels(h, downAfter, gap)
		if err != nil {
			t.Fatalf("VERIF-INFRA: %v", err)
		}
		idx := make([]int, len(labels))
		for i := range idx {
			idx[i] = i
		}
		k := rapid.SampledFrom(idx).Draw(t, "crashIndex")
		cut := rapid.SampledFrom([]float64{0, 1, 1, 0.5, 0.9}).Draw(t, "cutFrac")
		res, err := pnode.RunSyncedStartCrash(h, downAfter, gap, k, cut)
		if err != nil {
			t.Fatalf("VERIF-INFRA: %v", err)
		}
		cls := []string{"crash-at:" + res.CrashLabel, fmt.Sprintf("own-votes-acked:%d", res.OwnVotes), fmt.Sprintf("compared-in-same-height:%v", res.Compared),
			fmt.Sprintf("recovered-past-the-height:%v", res.Crashed && res.Recovered.H > res.FirstHeight)}
		// non-trivial: the crash came after the node had an own vote of the first height acknowledged in the WAL
		lib.Case(syncTest, lib.FP(h.Heights, h.Txs, downAfter, gap, k, cut), res.OwnVotes > 0, cls...)
		if res.Violation != "" {
			t.Fatalf("C15 violated [%s]: %s\nsynced start at height %d (down after %d, %d heights synced), crash at op %d (%s), wal cut %d in [%d,%d]",
				idSyncedStart, res.Violation, res.FirstHeight, downAfter, gap, k, res.CrashLabel, res.CutAt, res.HeadSynced, res.HeadOnDisk)
		}
	})
}

// TestRegressNoMarkerAfterSync replays finding C15-no-marker-after-sync without the property-testing library: the
// node is down after height 1, gets height 2 by block sync, enters consensus at height 3 without the WAL catch-up,
// signs and logs (WriteSync) its prevote and crashes right after; the restart must bring the prevote back.
func TestRegressNoMarkerAfterSync(t *testing.T) {
	h := pnode.History{Heights: 2, Txs: map[int64][]types.Tx{1: {types.Tx("a")}, 3: {types.Tx("b")}}, PowerSelf: 10,
		GenTime: time.Now().Add(-time.Hour).UTC()}
	labels, err := pnode.SyncedStartLabels(h, 1, 1)
	if err != nil {
		t.Fatalf("VERIF-INFRA: %v", err)
	}
	k, signed := -1, false
	for i, l := range labels {
		if l == "sign.Vote:after" {
			signed = true
		}
		if signed && l == "wal.WriteSync:after" {
			k = i
			break
		}
	}
	if k < 0 {
		t.Fatalf("VERIF-INFRA: no synced vote among the operations: %v", labels)
	}
	res, err := pnode.RunSyncedStartCrash(h, 1, 1, k, 1)
	if err != nil {
		t.Fatalf("VERIF-INFRA: %v", err)
	}
	lib.Case("TestRegressNoMarkerAfterSync", lib.FP(k), res.OwnVotes > 0)
	// a single validator that gets its prevote back goes straight on to commit the height: then the recovered
	// node is already past it, which is just as good
	if res.OwnVotes == 0 || (!res.Compared && res.Recovered.H <= res.FirstHeight) {
		t.Fatalf("VERIF-INFRA: nothing compared (crash %s, own votes %d, recovered %v)", res.CrashLabel, res.OwnVotes, res.Recovered)
	}
	if res.Violation != "" {
		t.Fatalf("[%s] %s", idSyncedStart, res.Violation)
	}
}
