// C15, replay clause, at the instants the log exists for: the node's own signatures. The WAL is written AHEAD - signVote
// and decideProposal flush and fsync it right before the private validator signs - so that whatever made the node
// sign is durable. A crash right after a signature (the sign-state file has it, nothing later is on disk) followed
// by a restart with catch-up replay must therefore bring the node back to at least the state in which it signed:
// same height => the round not behind, the step at least the vote's step, and for a precommit for a block the lock on
// that block in that round.
//
// (TestReplayRestoresRoundState compares with fingerprints taken when the node is quiescent, i.e. between two
// delivered messages; a signature is released in the middle of handling one.)
package c15

import (
	"fmt"
	"strings"
	"testing"

	"pgregory.net/rapid"

	cstypes "github.com/tendermint/tendermint/consensus/types"

	"verif/lib"
	"verif/pnode"
)

const signedTest = "TestReplayReachesSignedState"

func TestReplayReachesSignedState(t *testing.T) {
	rapid.Check(t, func(t *rapid.T) {
		h := pnode.GenHistory4(t)
		if rapid.IntRange(0, 5).Draw(t, "solo") == 0 {
			h = pnode.GenHistory(t)
		}
		labels, err := pnode.OpLabels(h)
		if err != nil {
			t.Fatalf("VERIF-INFRA: dry run: %v", err)
		}
		// crash points: right behind a signature, or one of the log writes that follow it before anything else
		// is signed or stored
		var cands []int
		for i, l := range labels {
			if l == "sign.Vote:after" || l == "sign.Proposal:after" {
				cands = append(cands, i)
				for j := i + 1; j < len(labels) && j <= i+3 && strings.HasPrefix(labels[j], "wal."); j++ {
					cands = append(cands, j)
				}
			}
		}
		if len(cands) == 0 {
			t.Skip("history without signatures")
		}
		k := rapid.SampledFrom(cands).Draw(t, "crashIndex")
		cut := rapid.SampledFrom([]float64{0, 1, 0.5}).Draw(t, "cutFrac")
		res, err := pnode.RunCrash(h, k, cut, nil)
		if err != nil {
			t.Fatalf("VERIF-INFRA: %v", err)
		}
		// the last signature released before the crash
		var last *pnode.SignRec
		for i := range res.SignLog {
			if r := &res.SignLog[i]; r.Inc == 0 && r.OpIndex <= k {
				last = r
			}
		}
		cls := []string{fmt.Sprintf("four-validators:%v", h.Four), "crash-at:" + res.CrashLabel}
		compared := false
		if last != nil && res.Recovered.H == last.H && len(res.Crashes) == 1 {
			compared = true
			got := res.Recovered
			want := int(cstypes.RoundStepPropose)
			switch last.Kind {
			case "prevote":
				want = int(cstypes.RoundStepPrevote)
			case "precommit":
				want = int(cstypes.RoundStepPrecommit)
			}
			forBlock := len(last.BlockID.Hash) > 0
			cls = append(cls, fmt.Sprintf("signed:%s/for-block=%v", last.Kind, forBlock))
			fail := func(what string) {
				t.Fatalf("C15 violated: %s\nthe node signed %v (operation %d) and crashed at operation %d (%s); after the restart's catch-up replay it is at %v\n"+
					"history=%+v\ntrace:\n%s", what, *last, last.OpIndex, k, res.CrashLabel, got, h, strings.Join(tail(res.Trace, 12), "\n"))
			}
			if got.R < last.R || (got.R == last.R && got.S < want) {
				fail(fmt.Sprintf("replay leaves the node at round %d step %d, behind the round %d / step %d in which it signed", got.R, got.S, last.R, want))
			}
			if last.Kind == "precommit" && forBlock && got.R == last.R {
				cls = append(cls, "lock-compared")
				if got.LockedRound != last.R || got.Locked != fmt.Sprintf("%X", last.BlockID.Hash[:4]) {
					fail(fmt.Sprintf("the node had locked block %X in round %d before it signed the precommit; after replay lockedRound=%d locked=%q",
						last.BlockID.Hash[:4], last.R, got.LockedRound, got.Locked))
				}
			}
		}
		lib.Case(signedTest, lib.FP(h.Four, h.Heights, h.Txs, h.Scripts, k, cut), compared, cls...)
		if v, bad := res.Violations["C15"]; bad {
			t.Fatalf("C15 violated: %s", v)
		}
	})
}

func tail(l []string, n int) []string {
	if len(l) > n {
		return l[len(l)-n:]
	}
	return l
}
