// C15 (part b) — replaying the records of the unfinished height brings the node back to the height, round, step,
// lock and vote sets it had reached.
//
// Real node (verif/pnode), four validators so that the round state is rich (locks, vote sets, several rounds): the
// pre-crash run is fingerprinted after every delivered message together with the number of WAL records written
// since the last end-of-height marker; after the crash (WAL tail cut anywhere in the unsynced region) the restart
// goes through the real start-up path (repair loop, catch-up replay); the recovered round state must not be behind
// any fingerprint whose records all survived, and must equal it when exactly those records survived.
package c15

import (
	"fmt"
	"strings"
	"testing"

	"pgregory.net/rapid"

	"verif/lib"
	"verif/pnode"
)

func TestReplayRestoresRoundState(t *testing.T) {
	rapid.Check(t, func(t *rapid.T) {
		h := pnode.GenHistory4(t)
		if rapid.IntRange(0, 4).Draw(t, "solo") == 0 {
			h = pnode.GenHistory(t)
		}
		labels, err := pnode.OpLabels(h)
		if err != nil {
			t.Fatalf("C05 violated (dry run): %v", err)
		}
		idx := make([]int, len(labels))
		for i := range idx {
			idx[i] = i
		}
		k := rapid.SampledFrom(idx).Draw(t, "crashIndex")
		cut := rapid.SampledFrom([]float64{0, 0, 1, 1, 0.5, 0.1, 0.97}).Draw(t, "cutFrac")
		res, err := pnode.RunCrash(h, k, cut, nil)
		if err != nil {
			t.Fatalf("VERIF-INFRA: %v", err)
		}
		nontrivial := res.ReplayCompared
		cls := []string{fmt.Sprintf("four-validators:%v", h.Four), "crash-at:" + res.CrashLabel}
		if res.ReplayCompared {
			cls = append(cls, "replay-compared")
		}
		if res.ReplayExact {
			cls = append(cls, "replay-exact(same records, same H/R/S: locks and vote sets compared)")
		}
		if res.TornTail {
			cls = append(cls, "wal-tail-cut-inside-unsynced-region")
		}
		if res.Recovered.LockedRound >= 0 {
			cls = append(cls, "recovered-with-lock")
		}
		if res.Recovered.R > 0 {
			cls = append(cls, "recovered-in-round>0")
		}
		lib.Case("TestReplayRestoresRoundState", lib.FP(h.Four, h.Heights, h.Txs, h.Scripts, k, res.CutAt-res.HeadSynced), nontrivial, cls...)
		if nontrivial && lib.WantSample("TestReplayRestoresRoundState") {
			lib.Sample("TestReplayRestoresRoundState", map[string]interface{}{"four_validators": h.Four, "crash_index": k, "crash": res.CrashLabel,
				"wal_head_synced": res.HeadSynced, "wal_head_on_disk": res.HeadOnDisk, "wal_cut_at": res.CutAt, "recovered_state": res.Recovered.String(), "exact": res.ReplayExact})
		}
		if v, bad := res.Violations["C15"]; bad {
			t.Fatalf("C15 violated: %s\nhistory=%+v crash=%d (%s) cut=%d in [%d,%d]\ntrace:\n%s", v, h, k, res.CrashLabel, res.CutAt, res.HeadSynced, res.HeadOnDisk, strings.Join(res.Trace, "\n"))
		}
	})
}
