// Package nnode is the node-level crash/restart engine: ONE validator whose every incarnation is built by the real
// node.NewNode / started by Node.Start / stopped by Node.Stop. It is used by harness/c05 (TestNodeRestartCrashPoints:
// the application sees each block exactly once ...) and harness/c04 (TestNodeSignerRestart: no crash or restart makes
// the key sign conflicting messages).
//
// verif/pnode replicates what node.NewNode does; nothing of node/node.go's own start-up orchestration (opening the
// databases, genesis document handling, handshake, the reload of the state after the handshake, what it does to the
// signer, the fast-sync / state-sync switches, the construction order of mempool / evidence pool / block executor /
// blockchain reactor / consensus state, the OnStart order) is exercised there. Here every incarnation of the node is
// built with node.NewNode over
//
//   - crash-point databases: the "disk" is a set of MemDBs that outlive the node object (the crash model of
//     lib.CrashDB: what was written before the crash point is there, nothing after it; batches are atomic);
//     each incarnation reaches them through its own gate (Inc): every mutation (and every call on the consensus
//     connection of the application) is one persistence operation, counted and labelled; the k-th one is the crash;
//   - an in-process recording application (lib.ScriptApp) that outlives the node (it is another process), reached
//     through the same gate;
//   - FilePV, node key, WAL in a home directory of its own per incarnation (the successor gets a copy taken when the
//     dead incarnation has come to rest), on /dev/shm when there is one;
//   - with Scenario.Signer: the consensus state's signer is replaced, between NewNode and Start, by a gate around the
//     very FilePV object NewNode was given: every signature released is journalled (pnode.SignRec), "before" and
//     "after" each signer call are crash points, a dead incarnation releases nothing; with Scenario.Blocker the chain
//     cannot commit (second validator, silent or voting nil in every round, played by the harness), so that restarts
//     fall inside a height for which signatures are out; with Scenario.Salted a restarted node finds other
//     transactions in its mempool.
//
// Crash model. At the armed operation the incarnation is marked dead under the gate's lock; neither that operation
// nor any later gated operation of the incarnation is applied, and a dead incarnation cannot read the disk either.
// What happens to the goroutine that ran into the gate depends on who it is (runtime.Stack): the consensus receive
// routine and the harness goroutine that runs NewNode/Start panic with a CrashSignal (tendermint's own recover in
// receiveRoutine / the harness's recover catch it); the indexer goroutine gets an error (it logs and goes on); any
// other goroutine is parked for good (counted). Since every goroutine of the dead incarnation is stopped BEFORE an
// operation of its own, the surviving state (disk + application + files) is a state the real process can be in
// when it is killed: each goroutine has executed a prefix of its program. The node object is then stopped as far
// as that is possible without hanging and thrown away; a new node is built with NewNode on the same disk, the same
// application and the copied files.
//
// Restart oracles (the C05 statement, nothing more): after any crash NewNode and Start succeed; right after NewNode
// (the handshake has run, nothing else is running yet) saved state, block store and application agree on height and
// application hash; a chain that can commit then commits at least two further heights; the application's journal
// obeys the grammar (pnode.CheckAppJournal). The only wall-clock signal is the progress deadline (tens of seconds
// where milliseconds are normal); a miss is a violation only if a calibration run (a fresh node on a fresh chain)
// shows that the machine is not stalled and a further full deadline does not help either; else it is VERIF-INFRA.
// Signer oracle (Scenario.Signer): CaseResult.SignViolation = pnode.CheckSignLog over the journal of all incarnations.
package nnode

import (
	"bytes"
	"errors"
	"fmt"
	"io"
	"os"
	"path/filepath"
	"runtime"
	"runtime/debug"
	"strconv"
	"strings"
	"sync"
	"sync/atomic"
	"time"

	dbm "github.com/tendermint/tm-db"
	"pgregory.net/rapid"

	abci "github.com/tendermint/tendermint/abci/types"
	cfg "github.com/tendermint/tendermint/config"
	"github.com/tendermint/tendermint/consensus"
	"github.com/tendermint/tendermint/crypto"
	"github.com/tendermint/tendermint/libs/log"
	mempl "github.com/tendermint/tendermint/mempool"
	"github.com/tendermint/tendermint/node"
	"github.com/tendermint/tendermint/p2p"
	"github.com/tendermint/tendermint/privval"
	tmproto "github.com/tendermint/tendermint/proto/tendermint/types"
	"github.com/tendermint/tendermint/proxy"
	sm "github.com/tendermint/tendermint/state"
	"github.com/tendermint/tendermint/store"
	"github.com/tendermint/tendermint/types"

	"verif/lib"
	"verif/pnode"
)

// generous deadlines (normal: milliseconds)
const (
	nodeBootDeadline     = 40 * time.Second
	nodeProgressDeadline = 30 * time.Second
	nodeStopDeadline     = 40 * time.Second
	nodeCalibrationLimit = 3 * time.Second // a fresh node needs ~50 ms for what the calibration run does
	nodeStallGap         = 2 * time.Second // a 5 ms sleep that takes this long = the machine is stalled
)

// ---------------------------------------------------------------------------------------------------------------
// scratch space (WAL fsyncs cost microseconds on a memory-backed file system)

const nodeScratchPrefix = "verif-nnode-p"

var (
	nodeScratchOnce sync.Once
	nodeScratchRoot string
)

func nodeScratch() string {
	nodeScratchOnce.Do(func() {
		for _, base := range []string{"/dev/shm", os.TempDir()} { // sweep the roots of killed processes
			ents, err := os.ReadDir(base)
			if err != nil {
				continue
			}
			for _, e := range ents {
				if !strings.HasPrefix(e.Name(), nodeScratchPrefix) {
					continue
				}
				pid, err := strconv.Atoi(strings.TrimPrefix(e.Name(), nodeScratchPrefix))
				if err != nil || pid == os.Getpid() {
					continue
				}
				if _, err := os.Stat(fmt.Sprintf("/proc/%d", pid)); os.IsNotExist(err) {
					os.RemoveAll(filepath.Join(base, e.Name()))
				}
			}
		}
		base := os.TempDir()
		if st, err := os.Stat("/dev/shm"); err == nil && st.IsDir() {
			base = "/dev/shm"
		}
		nodeScratchRoot = filepath.Join(base, fmt.Sprintf("%s%d", nodeScratchPrefix, os.Getpid()))
		if err := os.MkdirAll(nodeScratchRoot, 0o700); err != nil {
			nodeScratchRoot, _ = os.MkdirTemp("", nodeScratchPrefix)
		}
	})
	return nodeScratchRoot
}

// RemoveScratch removes this process's scratch root (call at the end of the test).
func RemoveScratch() {
	if nodeScratchRoot != "" {
		os.RemoveAll(nodeScratchRoot)
	}
}

// ---------------------------------------------------------------------------------------------------------------
// stall detector: the longest time a 5 ms sleep took (the progress deadline is only trusted on a machine that runs)

var (
	nodeHeartOnce sync.Once
	nodeHeartGap  int64 // max observed gap in ns since the last reset
)

func HeartStart() {
	nodeHeartOnce.Do(func() {
		go func() {
			for {
				t0 := time.Now()
				time.Sleep(5 * time.Millisecond)
				if d := int64(time.Since(t0)); d > atomic.LoadInt64(&nodeHeartGap) {
					atomic.StoreInt64(&nodeHeartGap, d)
				}
			}
		}()
	})
}

func nodeHeartReset() { atomic.StoreInt64(&nodeHeartGap, 0) }
func nodeHeartMax() time.Duration {
	return time.Duration(atomic.LoadInt64(&nodeHeartGap))
}

// ---------------------------------------------------------------------------------------------------------------
// scenario

type Scenario struct {
	Heights   int              // heights the first incarnation is to commit (relative: 1 = the first block)
	Initial   int64            // genesis initial height
	Txs       map[int][]string // relative height -> transactions submitted once the previous block is stored
	ValChange string           // "", "self-power", "add-validator"
	ValAt     int              // relative height whose EndBlock carries the validator update
	ParamAt   int              // relative height whose EndBlock carries a consensus-parameter update (0 = never)
	Mempool   string           // "v0" | "v1"
	FastSync  bool             // config fast_sync = true (the node must find out by itself that it is the only validator)
	Indexer   string           // "kv" | "null"
	GenTime   time.Time

	// ---- signer scenarios (C04); all zero in the C05 scenarios
	Signer       bool   // the node's FilePV is observed: every signer call is journalled and is a crash point (before / after)
	Blocker      string // "" | "silent" | "nil-voter": a second validator (ring key 1) that keeps the chain from committing
	BlockerPower int64  // its power (the node has 10; anything >= 5 blocks)
	BlockerAt    int    // 0 = in the genesis (no block is ever committed); r >= 1 = added by the EndBlock of relative height r (stuck from r+2)
	Signs        int    // nil-voter: an incarnation runs until its key was asked this many times at the stuck height
	Salted       bool   // the mempool of a restarted incarnation offers other transactions
}

// StuckHeight is the height at which the chain stops committing (0 = it never does).
func (sc Scenario) StuckHeight() int64 {
	switch {
	case sc.Blocker == "":
		return 0
	case sc.BlockerAt == 0:
		return sc.Initial
	}
	return sc.off(sc.BlockerAt + 2)
}

func (sc Scenario) off(rel int) int64 { return int64(rel) + sc.Initial - 1 }

func (sc Scenario) String() string {
	var txs []string
	for r := 1; r <= sc.Heights+3; r++ {
		txs = append(txs, fmt.Sprintf("%d:%q", r, sc.Txs[r]))
	}
	sign := ""
	if sc.Signer {
		sign = fmt.Sprintf(" signer-observed blocker=%s(power %d)@%d signs=%d salted=%v", sc.Blocker, sc.BlockerPower, sc.BlockerAt, sc.Signs, sc.Salted)
	}
	return fmt.Sprintf("{heights=%d initial=%d val=%s@%d param@%d mempool=%s fast_sync=%v indexer=%s%s txs=[%s]}",
		sc.Heights, sc.Initial, sc.ValChange, sc.ValAt, sc.ParamAt, sc.Mempool, sc.FastSync, sc.Indexer, sign, strings.Join(txs, " "))
}

// GenSignScenario draws a scenario for the signer property (C04): a committing chain as GenScenario draws it, or a
// chain that cannot commit from its first height on (second validator in the genesis) or from a later height on
// (second validator added by the application), the second validator being silent (the node signs what its round
// asks for and then waits for ever) or voting nil in every round (the node goes through round after round, signing
// proposals when it is the proposer, prevotes and precommits, and never commits).
func GenSignScenario(t *rapid.T) Scenario {
	sc := GenScenario(t)
	sc.Signer = true
	sc.Salted = rapid.IntRange(0, 3).Draw(t, "salted") != 0
	kind := rapid.SampledFrom([]string{"committing", "genesis-blocker", "genesis-blocker", "genesis-blocker", "late-blocker"}).Draw(t, "chain")
	if kind == "committing" {
		return sc
	}
	sc.Blocker = rapid.SampledFrom([]string{"silent", "nil-voter", "nil-voter"}).Draw(t, "blocker")
	sc.BlockerPower = rapid.SampledFrom([]int64{7, 10, 10, 15, 25}).Draw(t, "blockerPower")
	sc.Signs = rapid.SampledFrom([]int{2, 3, 4, 6, 9}).Draw(t, "signs")
	sc.FastSync = false // with a second validator fast sync waits for peers
	sc.ValChange, sc.ValAt = "", 0
	if kind == "late-blocker" {
		sc.ValChange = "add-blocking-validator"
		sc.ValAt = rapid.IntRange(1, 2).Draw(t, "blockerAt")
		sc.BlockerAt = sc.ValAt
	}
	return sc
}

func GenScenario(t *rapid.T) Scenario {
	sc := Scenario{Heights: rapid.SampledFrom([]int{2, 3, 4, 5}).Draw(t, "heights"), Initial: 1, Txs: map[int][]string{}}
	if rapid.IntRange(0, 3).Draw(t, "initialHeight") == 0 {
		sc.Initial = int64(rapid.IntRange(2, 60).Draw(t, "initial"))
	}
	for r := 1; r <= sc.Heights+3; r++ {
		n := rapid.IntRange(0, 3).Draw(t, "ntx")
		for j := 0; j < n; j++ {
			tx := fmt.Sprintf("tx-%d-%d-%s", r, j, rapid.StringMatching("[a-z]{0,10}").Draw(t, "txbody"))
			if rapid.IntRange(0, 4).Draw(t, "rejected") == 0 {
				tx = "!" + tx // the application answers DeliverTx with a non-zero code
			}
			sc.Txs[r] = append(sc.Txs[r], tx)
		}
	}
	sc.ValChange = rapid.SampledFrom([]string{"", "", "self-power", "add-validator"}).Draw(t, "valChange")
	if sc.ValChange != "" {
		sc.ValAt = rapid.IntRange(1, sc.Heights).Draw(t, "valAt")
	}
	sc.ParamAt = rapid.IntRange(0, sc.Heights).Draw(t, "paramAt")
	sc.Mempool = rapid.SampledFrom([]string{cfg.MempoolV0, cfg.MempoolV1}).Draw(t, "mempool")
	sc.Indexer = rapid.SampledFrom([]string{"kv", "kv", "kv", "null"}).Draw(t, "indexer")
	if sc.ValChange != "add-validator" {
		// with a second validator and fast_sync = true a restarted node waits for peers (by design): not generated
		sc.FastSync = rapid.Bool().Draw(t, "fastSyncConfig")
	}
	sc.GenTime = time.Now().Add(-time.Hour).UTC()
	return sc
}

// ---------------------------------------------------------------------------------------------------------------
// the world that outlives node objects

type World struct {
	sc     Scenario
	root   string
	disk   map[string]*dbm.MemDB // by DBContext.ID: what is "on disk"; outlives every node object
	diskMu sync.Mutex
	app    *lib.ScriptApp
	gen    *types.GenesisDoc
	fed    map[int]bool
	incs   []*Inc
	parked int32 // goroutines of dead incarnations parked for good
	trace  []string

	signMu   sync.Mutex
	signLog  []pnode.SignRec // every signature the key released, over all incarnations (Scenario.Signer)
	refused  []string        // signer calls that returned an error
	askedHRS map[string]int  // height/round/kind -> first incarnation that asked the key for it
	reasked  int             // requests at a height/round/kind first asked for by an earlier incarnation
}

func NewWorld(sc Scenario) (*World, error) {
	root, err := os.MkdirTemp(nodeScratch(), "case")
	if err != nil {
		return nil, err
	}
	w := &World{sc: sc, root: root, disk: map[string]*dbm.MemDB{}, app: lib.NewScriptApp(), fed: map[int]bool{}, askedHRS: map[string]int{}}
	pk := lib.Key(0).PubKey()
	w.gen = &types.GenesisDoc{GenesisTime: sc.GenTime, ChainID: "c05-node-chain", InitialHeight: sc.Initial,
		ConsensusParams: types.DefaultConsensusParams(),
		Validators:      []types.GenesisValidator{{Address: pk.Address(), PubKey: pk, Power: 10, Name: "v0"}}}
	if sc.Blocker != "" && sc.BlockerAt == 0 {
		bk := lib.Key(1).PubKey()
		w.gen.Validators = append(w.gen.Validators, types.GenesisValidator{Address: bk.Address(), PubKey: bk, Power: sc.BlockerPower, Name: "blocker"})
	}
	if err := w.gen.ValidateAndComplete(); err != nil {
		return nil, err
	}
	plan := func(rel int) *lib.HeightPlan {
		pl := w.app.Plans[sc.off(rel)]
		if pl == nil {
			pl = &lib.HeightPlan{}
			w.app.Plans[sc.off(rel)] = pl
		}
		return pl
	}
	switch sc.ValChange {
	case "self-power":
		plan(sc.ValAt).ValUpdates = []lib.ValUpdate{{Key: 0, Power: 17}}
	case "add-validator":
		plan(sc.ValAt).ValUpdates = []lib.ValUpdate{{Key: 1, Power: 1}} // never votes; the node keeps more than 2/3
	case "add-blocking-validator":
		plan(sc.ValAt).ValUpdates = []lib.ValUpdate{{Key: 1, Power: sc.BlockerPower}} // from ValAt+2 on the node has less than 2/3
	}
	if sc.ParamAt > 0 {
		plan(sc.ParamAt).Params = &abci.ConsensusParams{Block: &abci.BlockParams{MaxBytes: 1 << 20, MaxGas: 1000 + int64(sc.ParamAt)}}
	}
	home := w.home(0)
	for _, d := range []string{"config", "data"} {
		if err := os.MkdirAll(filepath.Join(home, d), 0o700); err != nil {
			return nil, err
		}
	}
	c := w.config(home)
	privval.NewFilePV(lib.Key(0), c.PrivValidatorKeyFile(), c.PrivValidatorStateFile()).Save()
	return w, nil
}

// cleanup ends a case: every incarnation is dead by now; what leaked goroutines of hung stops keep reachable is
// emptied (they can no longer pass their gates).
func (w *World) cleanup() {
	for _, inc := range w.incs {
		inc.kill()
	}
	os.RemoveAll(w.root)
	w.diskMu.Lock()
	for _, d := range w.disk {
		var keys [][]byte
		if it, err := d.Iterator(nil, nil); err == nil {
			for ; it.Valid(); it.Next() {
				keys = append(keys, it.Key())
			}
			it.Close()
		}
		for _, k := range keys {
			d.Delete(k) //nolint
		}
	}
	w.diskMu.Unlock()
	w.app.Mu.Lock()
	w.app.Journal, w.app.Plans, w.app.Hist = nil, map[int64]*lib.HeightPlan{}, nil
	w.app.Mu.Unlock()
}

func (w *World) home(i int) string { return filepath.Join(w.root, fmt.Sprintf("inc%d", i)) }

func (w *World) config(home string) *cfg.Config {
	c := cfg.TestConfig() // short consensus timeouts, memdb backend (unused: the DBProvider is ours)
	c.SetRoot(home)
	c.P2P.ListenAddress = "tcp://127.0.0.1:0" // loopback, ephemeral port, no peers
	c.P2P.PexReactor = false
	c.P2P.UPNP = false
	c.RPC.ListenAddress = ""
	c.RPC.GRPCListenAddress = ""
	c.FastSyncMode = w.sc.FastSync
	c.StateSync.Enable = false
	c.Mempool.Version = w.sc.Mempool
	c.Mempool.CacheSize = 200 // the default 10000-entry cache is allocated up front; node objects of hung stops stay reachable
	c.Mempool.Size = 200
	c.Consensus.CreateEmptyBlocks = true
	c.Consensus.CreateEmptyBlocksInterval = 0
	c.TxIndex.Indexer = w.sc.Indexer
	c.Instrumentation.Prometheus = false
	return c
}

func (w *World) diskDB(id string) *dbm.MemDB {
	w.diskMu.Lock()
	defer w.diskMu.Unlock()
	d, ok := w.disk[id]
	if !ok {
		d = dbm.NewMemDB()
		w.disk[id] = d
	}
	return d
}

func (w *World) tracef(format string, a ...interface{}) {
	if len(w.trace) < 400 {
		w.trace = append(w.trace, fmt.Sprintf(format, a...))
	}
}

// copyHome gives incarnation `to` a copy of the files of incarnation `from` (key, sign state, WAL).
func (w *World) copyHome(from, to int) error {
	src, dst := w.home(from), w.home(to)
	return filepath.Walk(src, func(p string, fi os.FileInfo, err error) error {
		if err != nil {
			if os.IsNotExist(err) {
				return nil // a temp file of an atomic replace that went away
			}
			return err
		}
		rel, _ := filepath.Rel(src, p)
		if fi.IsDir() {
			return os.MkdirAll(filepath.Join(dst, rel), 0o700)
		}
		if !fi.Mode().IsRegular() {
			return nil
		}
		in, err := os.Open(p)
		if err != nil {
			if os.IsNotExist(err) {
				return nil
			}
			return err
		}
		defer in.Close()
		out, err := os.OpenFile(filepath.Join(dst, rel), os.O_CREATE|os.O_TRUNC|os.O_WRONLY, 0o600)
		if err != nil {
			return err
		}
		defer out.Close()
		_, err = io.Copy(out, in)
		return err
	})
}

// cursors reads the three persisted cursors straight from the disk and the application.
type Cursors struct {
	State, Store, App  int64
	StateHash, AppHash []byte
	Err                string
}

func (c Cursors) String() string {
	if c.Err != "" {
		return c.Err
	}
	return fmt.Sprintf("state=%d store=%d app=%d", c.State, c.Store, c.App)
}

func (w *World) cursors() Cursors {
	var c Cursors
	st, err := sm.NewStore(w.diskDB("state"), sm.StoreOptions{}).Load()
	if err != nil {
		c.Err = fmt.Sprintf("state store cannot be loaded: %v", err)
		return c
	}
	c.State, c.StateHash = st.LastBlockHeight, st.AppHash
	c.Store = store.NewBlockStore(w.diskDB("blockstore")).Height()
	w.app.Mu.Lock()
	c.App, c.AppHash = w.app.Height, append([]byte(nil), w.app.AppHash...)
	w.app.Mu.Unlock()
	return c
}

// agree is the cursor oracle: "saved state, block store and application agree on height and application hash".
func (c Cursors) agree() string {
	if c.Err != "" {
		return c.Err
	}
	if c.State != c.Store || c.State != c.App {
		return fmt.Sprintf("heights disagree: saved state %d, block store %d, application %d", c.State, c.Store, c.App)
	}
	if c.App > 0 && !bytes.Equal(c.StateHash, c.AppHash) {
		return fmt.Sprintf("application hash disagrees at height %d: saved state %X, application %X", c.App, c.StateHash, c.AppHash)
	}
	return ""
}

// ---------------------------------------------------------------------------------------------------------------
// one incarnation and its gate

type CrashSignal struct {
	Inc   int
	Index int
	Label string
	After bool // a gated operation attempted after the crash
}

func (c CrashSignal) Error() string { return c.String() }
func (c CrashSignal) String() string {
	if c.After {
		return fmt.Sprintf("incarnation %d is dead (crashed at op %d): %s not performed", c.Inc, c.Index, c.Label)
	}
	return fmt.Sprintf("injected crash of incarnation %d before op %d (%s)", c.Inc, c.Index, c.Label)
}

var errNodeDead = errors.New("nnode: write by a dead incarnation dropped")

type Inc struct {
	w         *World
	id        int
	mu        sync.Mutex // the gate: held while a gated operation is applied
	dead      bool
	deadFlag  int32 // atomic copy of dead for readers
	n         int
	labels    []string
	armAt     int
	hit       *CrashSignal
	hitDB     string
	hitOn     string // which goroutine ran into the crash point
	crashedCh chan struct{}
	stage     atomic.Value // "NewNode" | "Start" | "running"
	logMu     sync.Mutex
	errLines  []string
	failure   string // a CONSENSUS FAILURE that is not ours
	infoSeen  map[string]int
	asked     map[int64]int // height -> signer calls of this incarnation (under mu)
}

func (w *World) newInc(armAt int) *Inc {
	inc := &Inc{w: w, id: len(w.incs), armAt: armAt, crashedCh: make(chan struct{}), infoSeen: map[string]int{}, asked: map[int64]int{}}
	inc.stage.Store("NewNode")
	w.incs = append(w.incs, inc)
	return inc
}

const (
	grOwn = iota
	grConsensus
	grIndexer
	grUnknown
)

func goroutineKind() (int, string) {
	buf := make([]byte, 128<<10)
	s := string(buf[:runtime.Stack(buf, false)])
	switch {
	case strings.Contains(s, "nnode.(*Inc).bootRoutine"):
		return grOwn, "boot"
	case strings.Contains(s, "consensus.(*State).receiveRoutine"):
		return grConsensus, "consensus"
	case strings.Contains(s, "txindex.(*IndexerService).OnStart"):
		return grIndexer, "indexer"
	}
	return grUnknown, "other"
}

// dispose ends the current goroutine's part in a dead incarnation.
func (inc *Inc) dispose(sig CrashSignal) error {
	kind, _ := goroutineKind()
	switch kind {
	case grOwn, grConsensus:
		panic(sig) // recovered by bootRoutine / by receiveRoutine's own handler
	case grIndexer:
		return errNodeDead // logged by the indexer service, which then waits for events that never come
	}
	atomic.AddInt32(&inc.w.parked, 1)
	select {} // nobody recovers for this goroutine: it stays where a killed process leaves it
}

// gate runs one gated operation. counted: it is a persistence operation (a crash point).
func (inc *Inc) gate(db, label string, counted bool, apply func() error) error {
	inc.mu.Lock()
	if inc.dead {
		sig := CrashSignal{Inc: inc.id, Index: inc.hit.Index, Label: db + "." + label, After: true}
		inc.mu.Unlock()
		return inc.dispose(sig)
	}
	if counted {
		idx := inc.n
		inc.n++
		inc.labels = append(inc.labels, db+"."+label)
		if idx == inc.armAt {
			sig := CrashSignal{Inc: inc.id, Index: idx, Label: db + "." + label}
			inc.dead = true
			atomic.StoreInt32(&inc.deadFlag, 1)
			inc.hit, inc.hitDB = &sig, db
			_, inc.hitOn = goroutineKind()
			close(inc.crashedCh)
			inc.mu.Unlock()
			return inc.dispose(sig)
		}
	}
	err := apply()
	inc.mu.Unlock()
	return err
}

// kill marks the incarnation dead without a crash point (after a clean Stop: stragglers must not write either).
func (inc *Inc) kill() {
	inc.mu.Lock()
	if !inc.dead {
		inc.dead = true
		atomic.StoreInt32(&inc.deadFlag, 1)
		inc.hit = &CrashSignal{Inc: inc.id, Index: inc.n, Label: "stopped"}
	}
	inc.mu.Unlock()
}

func (inc *Inc) ops() int { inc.mu.Lock(); defer inc.mu.Unlock(); return inc.n }

func (inc *Inc) isDead() bool { return atomic.LoadInt32(&inc.deadFlag) == 1 }

// read is the gate for reads: a dead process reads nothing.
func (inc *Inc) read(db string) {
	if inc.isDead() {
		inc.mu.Lock()
		sig := CrashSignal{Inc: inc.id, Index: inc.hit.Index, Label: db + ".read", After: true}
		inc.mu.Unlock()
		if kind, _ := goroutineKind(); kind == grIndexer {
			return // cannot hand an error to every reader; the indexer only writes
		}
		inc.dispose(sig) //nolint
	}
}

// ---- database gate

func keyClass(k []byte) string {
	s := string(k)
	if i := strings.IndexByte(s, ':'); i >= 0 && i <= 24 {
		s = s[:i+1]
	} else if len(s) > 24 {
		return "<key>"
	}
	for _, r := range s {
		if r < 0x20 || r > 0x7e {
			return "<key>"
		}
	}
	return s
}

type gateDB struct {
	inc  *Inc
	name string
	disk *dbm.MemDB
}

var _ dbm.DB = (*gateDB)(nil)

func (d *gateDB) Get(k []byte) ([]byte, error) { d.inc.read(d.name); return d.disk.Get(k) }
func (d *gateDB) Has(k []byte) (bool, error)   { d.inc.read(d.name); return d.disk.Has(k) }
func (d *gateDB) Iterator(a, b []byte) (dbm.Iterator, error) {
	d.inc.read(d.name)
	return d.disk.Iterator(a, b)
}
func (d *gateDB) ReverseIterator(a, b []byte) (dbm.Iterator, error) {
	d.inc.read(d.name)
	return d.disk.ReverseIterator(a, b)
}
func (d *gateDB) Close() error             { return nil } // the disk outlives the node
func (d *gateDB) Print() error             { return nil }
func (d *gateDB) Stats() map[string]string { return nil }

func (d *gateDB) label(kind string, k []byte) string {
	if d.name == "tx_index" {
		return kind
	}
	return kind + "(" + keyClass(k) + ")"
}

func cpb(b []byte) []byte { return append(make([]byte, 0, len(b)), b...) }

func (d *gateDB) Set(k, v []byte) error {
	k, v = cpb(k), cpb(v) // the disk keeps its own copies (a MemDB stores the slices it is given)
	return d.inc.gate(d.name, d.label("set", k), true, func() error { return d.disk.Set(k, v) })
}
func (d *gateDB) SetSync(k, v []byte) error {
	k, v = cpb(k), cpb(v)
	return d.inc.gate(d.name, d.label("setsync", k), true, func() error { return d.disk.SetSync(k, v) })
}
func (d *gateDB) Delete(k []byte) error {
	return d.inc.gate(d.name, d.label("delete", k), true, func() error { return d.disk.Delete(k) })
}
func (d *gateDB) DeleteSync(k []byte) error {
	return d.inc.gate(d.name, d.label("deletesync", k), true, func() error { return d.disk.DeleteSync(k) })
}
func (d *gateDB) NewBatch() dbm.Batch { return &gateBatch{d: d, b: d.disk.NewBatch()} }

type gateBatch struct {
	d     *gateDB
	b     dbm.Batch
	first []byte
	n     int
}

func (b *gateBatch) Set(k, v []byte) error {
	if b.n == 0 {
		b.first = append([]byte(nil), k...)
	}
	b.n++
	return b.b.Set(cpb(k), cpb(v))
}
func (b *gateBatch) Delete(k []byte) error {
	if b.n == 0 {
		b.first = append([]byte(nil), k...)
	}
	b.n++
	return b.b.Delete(cpb(k))
}
func (b *gateBatch) Write() error {
	return b.d.inc.gate(b.d.name, b.d.label("batch", b.first), true, func() error { return b.b.Write() })
}
func (b *gateBatch) WriteSync() error {
	return b.d.inc.gate(b.d.name, b.d.label("batchsync", b.first), true, func() error { return b.b.WriteSync() })
}
func (b *gateBatch) Close() error { return b.b.Close() }

// ---- application gate (the consensus connection; the mempool and query connections carry no state of the journal)

type gateApp struct {
	abci.Application // the surviving lib.ScriptApp
	inc              *Inc
}

func (g *gateApp) Info(req abci.RequestInfo) (res abci.ResponseInfo) {
	g.inc.gate("app", "Info", false, func() error { res = g.Application.Info(req); return nil }) //nolint
	return
}
func (g *gateApp) InitChain(req abci.RequestInitChain) (res abci.ResponseInitChain) {
	g.inc.gate("app", "InitChain", true, func() error { res = g.Application.InitChain(req); return nil }) //nolint
	return
}
func (g *gateApp) BeginBlock(req abci.RequestBeginBlock) (res abci.ResponseBeginBlock) {
	g.inc.gate("app", "BeginBlock", true, func() error { res = g.Application.BeginBlock(req); return nil }) //nolint
	return
}
func (g *gateApp) DeliverTx(req abci.RequestDeliverTx) (res abci.ResponseDeliverTx) {
	g.inc.gate("app", "DeliverTx", true, func() error { res = g.Application.DeliverTx(req); return nil }) //nolint
	return
}
func (g *gateApp) EndBlock(req abci.RequestEndBlock) (res abci.ResponseEndBlock) {
	g.inc.gate("app", "EndBlock", true, func() error { res = g.Application.EndBlock(req); return nil }) //nolint
	return
}
func (g *gateApp) Commit() (res abci.ResponseCommit) {
	g.inc.gate("app", "Commit", true, func() error { res = g.Application.Commit(); return nil }) //nolint
	return
}

// ---- signer gate (Scenario.Signer): the node's own *privval.FilePV (the object node.NewNode was given) behind the
// gate. Installed on the consensus state between NewNode and Start, so NewNode itself sees the plain file signer as
// in production. Every call is a crash point before and (when a signature was produced, i.e. the sign-state file has
// been replaced) after; the call itself runs under the gate, so a dead incarnation releases nothing.

type signerGate struct {
	pv  *privval.FilePV
	inc *Inc
	c   *cfg.Config
}

var _ types.PrivValidator = (*signerGate)(nil)

func (s *signerGate) GetPubKey() (crypto.PubKey, error) { return s.pv.GetPubKey() }

// persisted: a fresh load of the sign-state file already shows this signature (persist before release).
func (s *signerGate) persisted(h int64, r int32, step int8, sig []byte) bool {
	fresh := privval.LoadFilePV(s.c.PrivValidatorKeyFile(), s.c.PrivValidatorStateFile())
	ls := fresh.LastSignState
	return ls.Height == h && ls.Round == r && ls.Step == step && bytes.Equal(ls.Signature, sig)
}

func (s *signerGate) note(kind string, h int64, r int32, err error) {
	w := s.inc.w
	s.inc.asked[h]++ // under inc.mu (called from inside the gated operation)
	w.signMu.Lock()
	key := fmt.Sprintf("%d/%d/%s", h, r, kind)
	if first, ok := w.askedHRS[key]; !ok {
		w.askedHRS[key] = s.inc.id
	} else if first != s.inc.id {
		w.reasked++
	}
	if err != nil && len(w.refused) < 200 {
		w.refused = append(w.refused, fmt.Sprintf("inc%d %s h=%d r=%d: %v", s.inc.id, kind, h, r, err))
	}
	w.signMu.Unlock()
}

func (s *signerGate) SignVote(chainID string, vote *tmproto.Vote) error {
	noop := func() error { return nil }
	s.inc.gate("sign", "Vote:before", true, noop) //nolint
	var err error
	s.inc.gate("sign", "Vote", false, func() error { //nolint
		err = s.pv.SignVote(chainID, vote)
		kind, step := "prevote", int8(2)
		if vote.Type == tmproto.PrecommitType {
			kind, step = "precommit", 3
		}
		s.note(kind, vote.Height, vote.Round, err)
		if err != nil {
			return nil
		}
		rec := pnode.SignRec{Inc: s.inc.id, Kind: kind, H: vote.Height, R: vote.Round, POL: -1, SignBytes: types.VoteSignBytes(chainID, vote),
			Sig: append([]byte(nil), vote.Signature...), Time: vote.Timestamp, OpIndex: s.inc.n,
			PersistedOK: s.persisted(vote.Height, vote.Round, step, vote.Signature)}
		if bid, _ := types.BlockIDFromProto(&vote.BlockID); bid != nil {
			rec.BlockID = *bid
		}
		s.inc.w.signMu.Lock()
		s.inc.w.signLog = append(s.inc.w.signLog, rec)
		s.inc.w.signMu.Unlock()
		return nil
	})
	if err == nil {
		s.inc.gate("sign", "Vote:after", true, noop) //nolint
	}
	return err
}

func (s *signerGate) SignProposal(chainID string, p *tmproto.Proposal) error {
	noop := func() error { return nil }
	s.inc.gate("sign", "Proposal:before", true, noop) //nolint
	var err error
	s.inc.gate("sign", "Proposal", false, func() error { //nolint
		err = s.pv.SignProposal(chainID, p)
		s.note("proposal", p.Height, p.Round, err)
		if err != nil {
			return nil
		}
		rec := pnode.SignRec{Inc: s.inc.id, Kind: "proposal", H: p.Height, R: p.Round, POL: p.PolRound, SignBytes: types.ProposalSignBytes(chainID, p),
			Sig: append([]byte(nil), p.Signature...), Time: p.Timestamp, OpIndex: s.inc.n,
			PersistedOK: s.persisted(p.Height, p.Round, 1, p.Signature)}
		if bid, _ := types.BlockIDFromProto(&p.BlockID); bid != nil {
			rec.BlockID = *bid
		}
		s.inc.w.signMu.Lock()
		s.inc.w.signLog = append(s.inc.w.signLog, rec)
		s.inc.w.signMu.Unlock()
		return nil
	})
	if err == nil {
		s.inc.gate("sign", "Proposal:after", true, noop) //nolint
	}
	return err
}

// askedAt: signer calls of this incarnation for height h.
func (inc *Inc) askedAt(h int64) int { inc.mu.Lock(); defer inc.mu.Unlock(); return inc.asked[h] }

// ---- logger: keeps error lines of the living incarnation; spots a consensus failure that is not an injected crash

type nodeLogger struct {
	inc *Inc
	mod string
}

func (l nodeLogger) Debug(string, ...interface{}) {}
func (l nodeLogger) Info(msg string, _ ...interface{}) {
	switch msg {
	case "Replay last block using real app", "Replay last block using mock app", "Catchup by replaying consensus messages",
		"WAL does not contain #ENDHEIGHT for the last stored block; writing it", "successful WAL repair":
		l.inc.logMu.Lock()
		l.inc.infoSeen[msg]++
		l.inc.logMu.Unlock()
	}
	if strings.HasPrefix(msg, "Applying block") {
		l.inc.logMu.Lock()
		l.inc.infoSeen["Applying block"]++
		l.inc.logMu.Unlock()
	}
}
func (l nodeLogger) Error(msg string, kv ...interface{}) {
	if l.inc.isDead() {
		return // consequences of the injected crash
	}
	ours := false
	line := l.mod + ": " + msg
	for i := 0; i+1 < len(kv); i += 2 {
		if k, ok := kv[i].(string); ok && k == "stack" {
			continue
		}
		if _, ok := kv[i+1].(CrashSignal); ok {
			ours = true
		}
		line += fmt.Sprintf(" %v=%v", kv[i], kv[i+1])
	}
	if ours {
		return
	}
	if len(line) > 700 {
		line = line[:700]
	}
	l.inc.logMu.Lock()
	if len(l.inc.errLines) < 40 {
		l.inc.errLines = append(l.inc.errLines, line)
	}
	if msg == "CONSENSUS FAILURE!!!" && l.inc.failure == "" {
		l.inc.failure = line
	}
	l.inc.logMu.Unlock()
}
func (l nodeLogger) With(kv ...interface{}) log.Logger {
	for i := 0; i+1 < len(kv); i += 2 {
		if k, ok := kv[i].(string); ok && k == "module" {
			return nodeLogger{inc: l.inc, mod: fmt.Sprint(kv[i+1])}
		}
	}
	return l
}

func (inc *Inc) errors() []string {
	inc.logMu.Lock()
	defer inc.logMu.Unlock()
	return append([]string(nil), inc.errLines...)
}

func (inc *Inc) consensusFailure() string {
	inc.logMu.Lock()
	defer inc.logMu.Unlock()
	return inc.failure
}

func (inc *Inc) seen(msg string) int {
	inc.logMu.Lock()
	defer inc.logMu.Unlock()
	return inc.infoSeen[msg]
}

// ---- boot

type Boot struct {
	node      *node.Node
	err       error
	panicked  string
	crashed   bool
	afterNew  Cursors // read between NewNode and Start
	newNodeOK bool
	startOK   bool
}

func (inc *Inc) bootRoutine(res *Boot, done chan struct{}) {
	defer close(done)
	defer func() {
		if r := recover(); r != nil {
			if _, ok := r.(CrashSignal); ok {
				res.crashed = true
				return
			}
			res.panicked = fmt.Sprintf("%v\n%s", r, debug.Stack())
		}
	}()
	w := inc.w
	c := w.config(w.home(inc.id))
	pv := privval.LoadFilePV(c.PrivValidatorKeyFile(), c.PrivValidatorStateFile())
	nodeKey := &p2p.NodeKey{PrivKey: lib.Key(300)}
	dbProvider := func(ctx *node.DBContext) (dbm.DB, error) {
		return &gateDB{inc: inc, name: ctx.ID, disk: w.diskDB(ctx.ID)}, nil
	}
	genProvider := func() (*types.GenesisDoc, error) { return w.gen, nil }
	n, err := node.NewNode(c, pv, nodeKey, proxy.NewLocalClientCreator(&gateApp{Application: w.app, inc: inc}),
		genProvider, dbProvider, node.DefaultMetricsProvider(c.Instrumentation), nodeLogger{inc: inc, mod: "node"})
	if err != nil {
		res.err = fmt.Errorf("NewNode: %w", err)
		return
	}
	res.node, res.newNodeOK = n, true
	res.afterNew = w.cursors()
	if w.sc.Signer {
		// NewNode has seen (and may have touched) the plain file signer; from here on every call goes through the gate
		n.ConsensusState().SetPrivValidator(&signerGate{pv: pv, inc: inc, c: c})
	}
	if w.sc.Salted && inc.id > 0 {
		// a restarted node finds other transactions in its mempool than the ones it proposed before
		for j := 0; j < 2; j++ {
			n.Mempool().CheckTx(types.Tx(fmt.Sprintf("late-%d-%d", inc.id, j)), nil, mempl.TxInfo{}) //nolint
		}
	}
	inc.stage.Store("Start")
	if err := n.Start(); err != nil {
		res.err = fmt.Errorf("Node.Start: %w", err)
		return
	}
	inc.stage.Store("running")
	res.startOK = true
}

// stopNode calls Node.Stop and waits for it. Outcomes:
//
//	"stopped"  Node.Stop returned;
//	"hung"     Node.Stop cannot return, for a reason that is known and permanent: either Node.Start had been
//	           interrupted by an injected crash (startInterrupted: the consensus receive routine never started, the
//	           consensus reactor's OnStop waits for it for ever), or the upstream shutdown deadlock happened: consensus
//	           State.OnStop stops the timeout ticker while the receive routine is about to schedule a timeout; the
//	           routine then blocks for ever on the ticker's unbuffered channel, never sees Quit, and Reactor.OnStop
//	           waits for it (recognised from the goroutine dump: THIS node's receiveRoutine sits in
//	           timeoutTicker.ScheduleTimeout [chan send] on two looks 250 ms apart while its State is stopped). Either
//	           way nothing of the node will ever run again; what Node.Stop did not get to is closed by hand;
//	"timeout"  anything else after nodeStopDeadline (infrastructure).
//
// Not part of C05 (the statement says nothing about shutting down); the hang is reported as a class.
func stopNode(n *node.Node, startInterrupted bool) string {
	stopped := make(chan struct{})
	go func() {
		defer close(stopped)
		defer func() { recover() }() //nolint
		n.Stop()                     //nolint
	}()
	outcome := "hung"
	if startInterrupted {
		time.Sleep(2 * time.Millisecond) // let Node.Stop get as far as it gets
	} else {
		t0, sightings := time.Now(), 0
	WAIT:
		for {
			select {
			case <-stopped:
				outcome = "stopped"
				break WAIT
			case <-time.After(250 * time.Millisecond):
			}
			if !n.ConsensusState().IsRunning() && tickerDeadlock(n) {
				if sightings++; sightings >= 2 {
					break WAIT
				}
			} else {
				sightings = 0
			}
			if time.Since(t0) > nodeStopDeadline {
				return "timeout"
			}
		}
	}
	if outcome == "hung" {
		func() {
			defer func() { recover() }() //nolint
			if w := n.ConsensusState().VerifWAL(); w != nil {
				w.Stop() //nolint
			}
		}()
		func() {
			defer func() { recover() }() //nolint
			n.VerifC05CloseTransport()   //nolint
		}()
	}
	n.ProxyApp().Stop() //nolint
	closeWALHead(n)
	return outcome
}

// tickerDeadlock: is this node's consensus receive routine blocked sending to the (stopped) timeout ticker?
func tickerDeadlock(n *node.Node) bool {
	buf := make([]byte, 32<<20)
	all := string(buf[:runtime.Stack(buf, true)])
	me := fmt.Sprintf("consensus.(*State).receiveRoutine(%p,", n.ConsensusState())
	for _, g := range strings.Split(all, "\n\n") {
		if strings.Contains(g, me) {
			return strings.Contains(g[:strings.IndexByte(g+"\n", '\n')], "[chan send") &&
				strings.Contains(g, "consensus.(*timeoutTicker).ScheduleTimeout")
		}
	}
	return false
}

// abandon stops what can be stopped of a dead incarnation's node object. Returns an infrastructure complaint.
func (inc *Inc) abandon(n *node.Node, startInterrupted bool) string {
	if n == nil {
		return "" // died inside NewNode: nothing was handed out (its event bus and indexer goroutines stay behind)
	}
	if stopNode(n, startInterrupted) == "timeout" {
		return fmt.Sprintf("Node.Stop of a crashed incarnation did not return within %v\n%s", nodeStopDeadline, Stacks())
	}
	return ""
}

// closeWALHead closes the WAL head file (BaseWAL.OnStop stops the group but leaves the head's close ticker running).
func closeWALHead(n *node.Node) {
	defer func() { recover() }() //nolint
	if bw, ok := n.ConsensusState().VerifWAL().(*consensus.BaseWAL); ok {
		bw.Group().Head.Close() //nolint
	}
}

// ---------------------------------------------------------------------------------------------------------------
// one case

type CaseResult struct {
	Ops        int      // operations of the first incarnation when its target was reached (no crash) / at the crash
	Labels     []string // their labels
	Crashes    []CrashSignal
	CrashDBs   []string
	CrashOn    []string
	Classes    []string
	Violation  string
	Infra      string
	NoCrash    bool
	Restarts   int
	Parked     int
	JournalLen int
	Trace      []string

	// Scenario.Signer
	SignLog       []pnode.SignRec // every signature the key released over all incarnations
	SignViolation string          // pnode.CheckSignLog over it ("" = held)
	Refused       []string        // signer calls answered with an error
	Reasked       int             // signer calls at a height/round/kind that an earlier incarnation had been asked for
	SignedBefore  []int           // per restart: signatures released before it
	CursorsBefore []Cursors       // per restart: the persisted cursors before it
}

func (r *CaseResult) class(c string) { r.Classes = append(r.Classes, c) }

// feed submits the transactions planned for the heights up to rel+1 (rel = relative height of the last stored block).
func (w *World) feed(n *node.Node, storeHeight int64) {
	rel := 0
	if storeHeight > 0 {
		rel = int(storeHeight - w.sc.Initial + 1)
	}
	for r := 1; r <= rel+1 && r <= w.sc.Heights+3; r++ {
		if w.fed[r] {
			continue
		}
		w.fed[r] = true
		for _, tx := range w.sc.Txs[r] {
			n.Mempool().CheckTx(types.Tx(tx), nil, mempl.TxInfo{}) //nolint (a full or duplicate answer is fine)
		}
	}
}

type driveOutcome int

const (
	driveReached driveOutcome = iota
	driveCrashed
	driveFailed
	driveTimeout
)

// drive lets the started node run until the saved state reaches target, the incarnation crashes, its consensus
// routine dies by itself, or the deadline passes. In a scenario whose chain gets stuck (Scenario.Blocker) the run
// ends instead when the key has been asked Scenario.Signs times at the stuck height, or when it has been asked at
// least once there and nothing has happened for 60 ms (a silent blocker leaves the node waiting for ever; how long
// the harness watches decides only how much is seen, never a verdict); meanwhile the nil-voting blocker is played.
func (w *World) drive(inc *Inc, n *node.Node, target int64, deadline time.Duration) driveOutcome {
	t0 := time.Now()
	stuck := w.sc.StuckHeight()
	lastOps, lastChange := -1, time.Now()
	played := map[string]bool{}
	for i := 0; ; i++ {
		select {
		case <-inc.crashedCh:
			return driveCrashed
		default:
		}
		h := n.BlockStore().Height()
		w.feed(n, h)
		if stuck == 0 {
			if h >= target {
				if st, err := sm.NewStore(w.diskDB("state"), sm.StoreOptions{}).Load(); err == nil && st.LastBlockHeight >= target {
					return driveReached
				}
			}
		} else {
			if w.sc.Blocker == "nil-voter" {
				w.playNilVoter(n, played)
			}
			asked := inc.askedAt(stuck)
			if w.sc.Blocker == "nil-voter" && asked >= w.sc.Signs {
				return driveReached
			}
			if ops := inc.ops() + asked; ops != lastOps {
				lastOps, lastChange = ops, time.Now()
			} else if asked >= 1 && time.Since(lastChange) > 60*time.Millisecond {
				return driveReached
			}
		}
		if inc.consensusFailure() != "" {
			select {
			case <-inc.crashedCh:
				return driveCrashed
			default:
			}
			return driveFailed
		}
		if i%64 == 0 && time.Since(t0) > deadline {
			return driveTimeout
		}
		time.Sleep(200 * time.Microsecond)
	}
}

// playNilVoter is the second validator (ring key 1) of a nil-voter scenario: for every height/round the node is in
// while key 1 is a validator it sends, once, a nil prevote and a nil precommit (deterministic timestamps, so a
// repetition after a restart is byte-identical). With them the node sees +2/3 of anything but never +2/3 for a block.
func (w *World) playNilVoter(n *node.Node, played map[string]bool) {
	rs := n.ConsensusState().GetRoundState()
	if rs.Validators == nil || rs.Height == 0 {
		return
	}
	addr := lib.Key(1).PubKey().Address()
	idx, val := rs.Validators.GetByAddress(addr)
	if val == nil {
		return
	}
	key := fmt.Sprintf("%d/%d", rs.Height, rs.Round)
	if played[key] {
		return
	}
	played[key] = true
	for _, typ := range []tmproto.SignedMsgType{tmproto.PrevoteType, tmproto.PrecommitType} {
		v := &types.Vote{Type: typ, Height: rs.Height, Round: rs.Round, ValidatorAddress: addr, ValidatorIndex: idx,
			Timestamp: w.sc.GenTime.Add(time.Duration(rs.Height)*time.Second + time.Duration(rs.Round)*time.Millisecond)}
		pb := v.ToProto()
		sig, err := lib.Key(1).Sign(types.VoteSignBytes(w.gen.ChainID, pb))
		if err != nil {
			panic(err)
		}
		v.Signature = sig
		n.ConsensusState().AddVote(v, "nnode-blocker") //nolint
	}
}

// calibrate measures what the machine needs right now to boot a fresh node and commit two blocks.
func nodeCalibrate() (time.Duration, error) {
	sc := Scenario{Heights: 2, Initial: 1, Txs: map[int][]string{}, Mempool: cfg.MempoolV0, Indexer: "kv", GenTime: time.Now().Add(-time.Hour).UTC()}
	w, err := NewWorld(sc)
	if err != nil {
		return 0, err
	}
	defer w.cleanup()
	t0 := time.Now()
	inc := w.newInc(-1)
	res, done := &Boot{}, make(chan struct{})
	go inc.bootRoutine(res, done)
	select {
	case <-done:
	case <-time.After(nodeBootDeadline):
		return time.Since(t0), fmt.Errorf("calibration node did not start within %v", nodeBootDeadline)
	}
	if !res.startOK {
		return time.Since(t0), fmt.Errorf("calibration node did not start: %v %s", res.err, res.panicked)
	}
	out := w.drive(inc, res.node, 2, nodeProgressDeadline)
	d := time.Since(t0)
	inc.kill()
	inc.abandon(res.node, false)
	if out != driveReached {
		return d, fmt.Errorf("calibration node did not commit two blocks (outcome %d): %v", out, inc.errors())
	}
	return d, nil
}

// stalled decides after a deadline miss whether the machine (not the node) is to blame.
func nodeStalled() (bool, string) {
	if g := nodeHeartMax(); g > nodeStallGap {
		return true, fmt.Sprintf("a 5 ms sleep took %v during the wait", g)
	}
	d, err := nodeCalibrate()
	if err != nil {
		return true, fmt.Sprintf("calibration failed: %v", err)
	}
	if d > nodeCalibrationLimit {
		return true, fmt.Sprintf("calibration run (fresh node, two blocks) took %v", d)
	}
	return false, fmt.Sprintf("calibration run took %v, longest 5 ms sleep %v", d, nodeHeartMax())
}

// RunCase plays the scenario; arms[i] is the crash index of incarnation i (-1 / missing = none).
// cleanRestart: if the first incarnation reaches its target without a crash, stop it cleanly and start it again.
func RunCase(sc Scenario, arms []int, cleanRestart bool) *CaseResult {
	res := &CaseResult{}
	w, err := NewWorld(sc)
	if err != nil {
		res.Infra = err.Error()
		return res
	}
	defer w.cleanup()
	defer func() {
		res.Trace = w.trace
		res.Parked = int(atomic.LoadInt32(&w.parked))
		res.JournalLen = len(w.app.Journal)
		if sc.Signer {
			w.signMu.Lock()
			res.SignLog, res.Refused, res.Reasked = append([]pnode.SignRec(nil), w.signLog...), append([]string(nil), w.refused...), w.reasked
			w.signMu.Unlock()
			res.SignViolation = pnode.CheckSignLog(res.SignLog)
		}
	}()
	fail := func(format string, a ...interface{}) {
		if res.Violation == "" {
			res.Violation = fmt.Sprintf(format, a...)
		}
	}
	journal := func(when string) {
		w.app.Mu.Lock()
		v := pnode.CheckAppJournal(w.app, store.NewBlockStore(w.diskDB("blockstore")))
		w.app.Mu.Unlock()
		if v != "" {
			fail("%s: %s", when, v)
		}
	}
	history := func() string {
		var l []string
		for i, c := range res.Crashes {
			l = append(l, fmt.Sprintf("#%d %s on the %s goroutine", i, c, res.CrashOn[i]))
		}
		if len(l) == 0 {
			return "a clean stop"
		}
		return strings.Join(l, "; ")
	}
	maxInc := len(arms) + 2
	restartKind := "" // why the current incarnation was started: "" first, "crash", "clean"
	for i := 0; i < maxInc; i++ {
		arm := -1
		if i < len(arms) {
			arm = arms[i]
		}
		before := w.cursors()
		w.signMu.Lock()
		signedBefore := len(w.signLog)
		w.signMu.Unlock()
		inc := w.newInc(arm)
		boot, done := &Boot{}, make(chan struct{})
		nodeHeartReset()
		go inc.bootRoutine(boot, done)
		select {
		case <-done:
		case <-time.After(nodeBootDeadline):
			if stalled, why := nodeStalled(); stalled {
				res.Infra = fmt.Sprintf("incarnation %d did not finish %v within %v and the machine is stalled: %s", i, inc.stage.Load(), nodeBootDeadline, why)
			} else {
				fail("after %s incarnation %d hangs in %v (no return within %v; %s); cursors before: %v; log: %v", history(), i, inc.stage.Load(), nodeBootDeadline, why, before, inc.errors())
			}
			inc.kill()
			return res
		}
		w.tracef("inc%d (%s) cursors before boot: %v; NewNode ok=%v (cursors then: %v) Start ok=%v crashed=%v err=%v", i, restartKind, before, boot.newNodeOK, boot.afterNew, boot.startOK, boot.crashed, boot.err)
		if i > 0 {
			res.Restarts++
			res.SignedBefore = append(res.SignedBefore, signedBefore)
			res.CursorsBefore = append(res.CursorsBefore, before)
			rel := func(h int64) int64 { // heights relative to the chain's first block (1 = first block, 0 = none)
				if h == 0 {
					return 0
				}
				return h - sc.Initial + 1
			}
			res.class(fmt.Sprintf("restart-after-%s: store-state=%d store-app=%d", restartKind, rel(before.Store)-rel(before.State), rel(before.Store)-rel(before.App)))
			if before.State == 0 {
				res.class("restart-after-" + restartKind + ": saved state at height 0")
			} else {
				res.class("restart-after-" + restartKind + ": saved state at height >= 1")
			}
		}
		// ---- oracle 1: NewNode and Start succeed (an armed crash of THIS incarnation is not a failure)
		if !boot.crashed && (boot.err != nil || boot.panicked != "") {
			what := fmt.Sprintf("%v", boot.err)
			if boot.panicked != "" {
				what = "panic: " + boot.panicked
			}
			if i == 0 {
				fail("a fresh node cannot start (%v): %s; log: %v", inc.stage.Load(), what, inc.errors())
			} else {
				fail("after %s the node cannot start again (%v; cursors before the restart: %v): %s; log: %v", history(), inc.stage.Load(), before, what, inc.errors())
			}
			inc.kill()
			if boot.node != nil {
				inc.abandon(boot.node, !boot.startOK)
			}
			return res
		}
		// ---- oracle 2: after the restart the three cursors agree (read right after NewNode, before anything runs)
		if i > 0 && boot.newNodeOK {
			if v := boot.afterNew.agree(); v != "" {
				fail("after %s and the restart (NewNode returned): %s (before the restart: %v)", history(), v, before)
			}
			res.class(fmt.Sprintf("handshake-applied-blocks:%d", inc.seen("Applying block")+inc.seen("Replay last block using real app")+inc.seen("Replay last block using mock app")))
			if inc.seen("Replay last block using mock app") > 0 {
				res.class("handshake-mock-app-replay")
			}
		}
		outcome := driveCrashed
		target := int64(0)
		if !boot.crashed {
			// ---- run
			if i == 0 {
				target = sc.off(sc.Heights)
			} else {
				target = boot.afterNew.State + 2 // oracle 3: at least two further heights
				if boot.afterNew.State == 0 {
					target = sc.Initial + 1
				}
			}
			outcome = w.drive(inc, boot.node, target, nodeProgressDeadline)
			if outcome == driveTimeout {
				stalled, why := nodeStalled()
				if !stalled {
					// the machine runs: give the node another full deadline before calling it stuck
					nodeHeartReset()
					outcome = w.drive(inc, boot.node, target, nodeProgressDeadline)
					if outcome == driveTimeout {
						if g := nodeHeartMax(); g > nodeStallGap {
							stalled, why = true, fmt.Sprintf("a 5 ms sleep took %v during the second wait", g)
						}
					} else {
						res.class("slow-progress(second deadline)")
					}
				}
				if outcome == driveTimeout {
					if stalled {
						res.Infra = fmt.Sprintf("incarnation %d did not reach height %d within %v and the machine is stalled: %s", i, target, nodeProgressDeadline, why)
					} else if i == 0 {
						fail("a fresh node does not commit: stuck at block store height %d (target %d) for %v (%s); log: %v", boot.node.BlockStore().Height(), target, 2*nodeProgressDeadline, why, inc.errors())
					} else {
						fail("after %s the restarted node does not go on committing: stuck at block store height %d, wanted %d, for %v (%s); cursors after NewNode: %v; log: %v", history(), boot.node.BlockStore().Height(), target, 2*nodeProgressDeadline, why, boot.afterNew, inc.errors())
					}
					inc.kill()
					inc.abandon(boot.node, false)
					return res
				}
			}
			if outcome == driveFailed {
				if i == 0 {
					fail("the consensus routine of a fresh node halted by itself at block store height %d: %s", boot.node.BlockStore().Height(), inc.consensusFailure())
				} else {
					fail("after %s the consensus routine of the restarted node halted by itself at block store height %d (cursors after NewNode: %v): %s", history(), boot.node.BlockStore().Height(), boot.afterNew, inc.consensusFailure())
				}
				inc.kill()
				inc.abandon(boot.node, false)
				return res
			}
		}
		if i == 0 {
			res.Ops, res.Labels = inc.ops(), append([]string(nil), inc.labels...)
		}
		if outcome == driveReached {
			// ---- no crash in this incarnation: stop it cleanly
			how := stopNode(boot.node, false)
			inc.kill() // stragglers (the indexer may still be writing the last block's events) stop here
			if how == "timeout" {
				res.Infra = fmt.Sprintf("Node.Stop of incarnation %d did not return within %v\n%s", i, nodeStopDeadline, Stacks())
				return res
			}
			if how == "hung" {
				res.class("node-stop-deadlock(ticker stopped before the receive routine; not C05)")
			}
			journal(fmt.Sprintf("at the end of incarnation %d (%s)", i, history()))
			if i == 0 {
				res.NoCrash = true
				if cleanRestart {
					if err := w.copyHome(0, 1); err != nil {
						res.Infra = err.Error()
						return res
					}
					restartKind = "clean-stop"
					if how == "hung" {
						restartKind = "hung-stop"
					}
					arms = nil
					maxInc = 2
					continue
				}
			}
			return res
		}
		// ---- the incarnation crashed: dispose of it, hand its files to the successor
		sig := *inc.hit
		res.Crashes = append(res.Crashes, sig)
		res.CrashDBs = append(res.CrashDBs, inc.hitDB)
		res.CrashOn = append(res.CrashOn, inc.hitOn)
		w.tracef("inc%d crashed: %v (goroutine: %s, stage %v); last ops: %v", i, sig, inc.hitOn, inc.stage.Load(), tail(inc.labels, 8))
		if i == 0 {
			res.Ops = sig.Index
		}
		if infra := inc.abandon(boot.node, boot.crashed && boot.newNodeOK); infra != "" {
			res.Infra = infra
			return res
		}
		journal(fmt.Sprintf("after crash %s", history()))
		if res.Violation != "" {
			return res
		}
		if err := w.copyHome(i, i+1); err != nil {
			res.Infra = err.Error()
			return res
		}
		restartKind = "crash"
	}
	return res
}

// Stacks dumps the goroutines that are inside tendermint code (diagnostics for a hang).
func Stacks() string {
	buf := make([]byte, 8<<20)
	all := string(buf[:runtime.Stack(buf, true)])
	if f := os.Getenv("VERIF_C05_DUMP"); f != "" {
		os.WriteFile(f, []byte(all), 0o644) //nolint
	}
	var out []string
	for _, g := range strings.Split(all, "\n\n") {
		if strings.Contains(g, "tendermint/") && !strings.Contains(g, "select (no cases)") &&
			!strings.Contains(g, "IndexerService).OnStart.func1") && !strings.Contains(g, "killTMOnClientError") {
			out = append(out, g)
		}
	}
	if len(out) > 80 {
		out = out[:80]
	}
	return strings.Join(out, "\n\n")
}

func tail(l []string, k int) []string {
	if len(l) > k {
		l = l[len(l)-k:]
	}
	return l
}

// Pick maps the drawn values to an index in [0,n), uniformly: rapid's integer and SampledFrom generators favour
// small values (measured: operation 0 was drawn in 11% of the cases), a hash of everything drawn does not. Still a
// pure function of the draws.
func Pick(sc Scenario, salt uint64, n int) int {
	return int(lib.FP(sc.String(), salt, n) % uint64(n))
}

func Around(l []string, k, r int) []string {
	lo, hi := k-r, k+r+1
	if lo < 0 {
		lo = 0
	}
	if hi > len(l) {
		hi = len(l)
	}
	if lo >= hi {
		return nil
	}
	out := make([]string, 0, hi-lo)
	for i := lo; i < hi; i++ {
		mark := ""
		if i == k {
			mark = "*"
		}
		out = append(out, fmt.Sprintf("%s%d:%s", mark, i, l[i]))
	}
	return out
}
