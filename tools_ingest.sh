#!/bin/bash
# usage: tools_ingest.sh <wave-prefix e.g. seed6> <PROP> <variant>   — validates /tmp/<prefix>-<PROP>-out/<variant> using its seed.json
set -u
PRE=$1; PROP=$2; VAR=$3
OUT=/tmp/$PRE-$PROP-out/$VAR
[ -f $OUT/seed.json ] || { echo "$PROP-$VAR: no seed.json"; exit 2; }
eval $(python3 - "$OUT/seed.json" "$PROP" "$VAR" "$PRE" <<'PY'
import json,sys,os,shlex
j=json.load(open(sys.argv[1])); prop,var,pre=sys.argv[2:5]
d=f'/verif/seeded/{prop}-{var}'; os.makedirs(d,exist_ok=True)
p=d+'/meta.json'
m=json.load(open(p)) if os.path.exists(p) else {}
m['breaks']=j.get('breaks',''); m['needs_to_manifest']=j.get('needs',''); m['wave']=int(pre.replace('seed',''))
json.dump(m,open(p,'w'),indent=1)
print('DEMO=%s DEST=%s PKG=%s RUN=%s'%(shlex.quote(j['demo_file']),shlex.quote(j['demo_dest']),shlex.quote(j['pkg']),shlex.quote(j['run_regex'])))
PY
)
cd /verif
./tools_seed.sh $PROP $VAR $OUT "$DEMO" "$DEST" "$PKG" "$RUN" > /tmp/sv3/$PROP-$VAR.log 2>&1
echo "$PROP-$VAR: $(grep -E 'demo on HEAD|check rc' /tmp/sv3/$PROP-$VAR.log | tr '\n' ' ')"
