#!/bin/bash
# usage: tools_revalidate.sh [P] [filter-regex]   - re-run every seeded change (seeded/*/meta.json) through tools_seed.sh
# against /repo's current HEAD and the current harness, P at a time; summary in seeded/_revalidation/<HEAD>.txt.
# A patch written against an older HEAD that no longer applies is tried with --3way; if that fails too the line says so.
set -u
P=${1:-2}; FILT=${2:-.}
cd /verif
HEAD=$(git -C /repo rev-parse --short HEAD)
mkdir -p seeded/_revalidation /tmp/reval
BATCH=$(mktemp /tmp/reval/batch.XXXXXX)
python3 - "$FILT" > $BATCH <<'PY'
import json,glob,os,re,sys
for d in sorted(glob.glob('seeded/C*-*')):
    if not re.search(sys.argv[1], os.path.basename(d)): continue
    m=json.load(open(d+'/meta.json'))
    if m.get('outside_property'): continue
    cmd=m['demo_cmd']
    mm=re.match(r"go test -count=1 -run '(.*)' (\S+)$",cmd)
    if not mm: 
        sys.stderr.write("skip %s: %s\n"%(d,cmd)); continue
    prop,var=os.path.basename(d).split('-',1)
    print("\t".join([prop,var,m['demo_file'],m['demo_placement'],mm.group(2),mm.group(1)]))
PY
one() {
  IFS=$'\t' read -r prop var demo dest pkg run <<< "$1"
  ./tools_seed.sh "$prop" "$var" "/verif/seeded/$prop-$var" "$demo" "$dest" "$pkg" "$run" > /tmp/reval/$prop-$var.log 2>&1
  echo "$prop-$var: $(grep -E 'demo on HEAD|check rc|patch does not apply|worktree failed' /tmp/reval/$prop-$var.log | tr '\n' ' ')"
}
export -f one
xargs -a $BATCH -d '\n' -P "$P" -I{} bash -c 'one "$@"' _ {} | tee -a seeded/_revalidation/$HEAD.txt
