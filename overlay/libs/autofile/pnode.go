//go:build verif

package autofile

// VerifPnodeFlushNoSync hands the buffered head bytes to the operating system without fsync: after a power loss any
// prefix of them may or may not have reached the disk. Used by the /verif crash harness to model the surviving
// unsynced WAL tail. Re-export only.
func (g *Group) VerifPnodeFlushNoSync() error {
	g.mtx.Lock()
	defer g.mtx.Unlock()
	return g.headBuf.Flush()
}
