//go:build verif

package autofile

// Export shim for the /verif WAL check (C15). Re-exports only.

// One tick of processTicks (the body the group's ticker runs every groupCheckDuration) is
// VerifC15CheckHeadSizeLimit (rotation) followed by VerifC15CheckTotalSizeLimit (discarding old files); the harness
// calls them in that order and looks at the directory in between.
func (g *Group) VerifC15CheckHeadSizeLimit()  { g.checkHeadSizeLimit() }
func (g *Group) VerifC15CheckTotalSizeLimit() { g.checkTotalSizeLimit() }

// VerifC15FlushNoSync is the first half of FlushAndSync: the buffered bytes are handed to the operating system but
// not fsynced. The harness uses it to model a crash that hits FlushAndSync between its two steps.
func (g *Group) VerifC15FlushNoSync() error {
	g.mtx.Lock()
	defer g.mtx.Unlock()
	return g.headBuf.Flush()
}
