//go:build verif

package p2p

// Re-exports for the C16 harness: Dial/Accept need the unexported peerConfig.

func (mt *MultiplexTransport) VerifC16Dial(addr NetAddress) (Peer, error) {
	return mt.Dial(addr, peerConfig{})
}

func (mt *MultiplexTransport) VerifC16Accept() (Peer, error) {
	return mt.Accept(peerConfig{})
}

// VerifC16ListenAddr returns the bound listener address (the port chosen by the kernel for ":0").
func (mt *MultiplexTransport) VerifC16ListenAddr() string {
	return mt.listener.Addr().String()
}
