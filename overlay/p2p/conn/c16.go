//go:build verif

package conn

import "encoding/binary"

// Re-exports for the C16 harness (read-only views of the nonce counters; nothing is re-implemented).

// VerifC16Nonces returns copies of the raw send and receive nonces.
func (sc *SecretConnection) VerifC16Nonces() (send, recv [aeadNonceSize]byte) {
	sc.sendMtx.Lock()
	send = *sc.sendNonce
	sc.sendMtx.Unlock()
	sc.recvMtx.Lock()
	recv = *sc.recvNonce
	sc.recvMtx.Unlock()
	return
}

// VerifC16SendCounter returns the 64-bit counter part of the send nonce (taken under the send lock).
func (sc *SecretConnection) VerifC16SendCounter() uint64 {
	sc.sendMtx.Lock()
	defer sc.sendMtx.Unlock()
	return binary.LittleEndian.Uint64(sc.sendNonce[4:])
}

// VerifC16RecvCounter returns the 64-bit counter part of the receive nonce. It does NOT take the receive lock
// (a blocked Read holds it); callers use it only when no Read is in flight.
func (sc *SecretConnection) VerifC16RecvCounter() uint64 {
	return binary.LittleEndian.Uint64(sc.recvNonce[4:])
}

// Frame geometry as the implementation defines it (the harness has its own constants and compares).
const (
	VerifC16DataMaxSize     = dataMaxSize
	VerifC16SealedFrameSize = totalFrameSize + aeadSizeOverhead
)

// VerifC16SetCounters fast-forwards the 64-bit frame counters of an established connection (the state a link
// reaches after that many frames); the fixed 4-byte prefix of the nonces is left alone. Test double only: it
// stores values, the increment logic under test is untouched.
func (sc *SecretConnection) VerifC16SetCounters(send, recv uint64) {
	sc.sendMtx.Lock()
	binary.LittleEndian.PutUint64(sc.sendNonce[4:], send)
	sc.sendMtx.Unlock()
	sc.recvMtx.Lock()
	binary.LittleEndian.PutUint64(sc.recvNonce[4:], recv)
	sc.recvMtx.Unlock()
}
