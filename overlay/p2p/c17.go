//go:build verif

package p2p

// C17 harness: a Switch whose transport does nothing (no listener, no dialing). Transport mentions the unexported
// peerConfig, so the double has to live in this package. The Switch itself is the real one: StopPeerForError,
// the peer set and reactor bookkeeping behave as in a node.

import (
	"errors"
	"net"

	"github.com/tendermint/tendermint/config"
)

type verifC17Transport struct{ addr NetAddress }

func (t *verifC17Transport) NetAddress() NetAddress { return t.addr }
func (t *verifC17Transport) Accept(peerConfig) (Peer, error) {
	return nil, ErrTransportClosed{}
}
func (t *verifC17Transport) Dial(NetAddress, peerConfig) (Peer, error) {
	return nil, errors.New("verif: dialing disabled")
}
func (t *verifC17Transport) Cleanup(p Peer) { _ = p.CloseConn() }

// VerifC17NewSwitch returns a real Switch over the no-op transport.
func VerifC17NewSwitch(cfg *config.P2PConfig, self NetAddress) *Switch {
	return NewSwitch(cfg, &verifC17Transport{addr: self})
}

// VerifC17AddPeerWithConnection re-exports the package's own test helper (test_util.go): secret-connection upgrade and
// node-info handshake over conn, then the REAL p2p peer (newPeer: MConnection whose onReceive decodes and dispatches to
// the reactors) is added through Switch.addPeer.
func (sw *Switch) VerifC17AddPeerWithConnection(c net.Conn) error { return sw.addPeerWithConnection(c) }
