//go:build verif

package p2p

// C17 harness: a Switch whose transport does nothing (no listener, no dialing). Transport mentions the unexported
// peerConfig, so the double has to live in this package. The Switch itself is the real one: StopPeerForError,
// the peer set and reactor bookkeeping behave as in a node.

import (
	"errors"

	"github.com/tendermint/tendermint/config"
)

type verifC17Transport struct{ addr NetAddress }

func (t *verifC17Transport) NetAddress() NetAddress { return t.addr }
func (t *verifC17Transport) Accept(peerConfig) (Peer, error) {
	return nil, ErrTransportClosed{}
}
func (t *verifC17Transport) Dial(NetAddress, peerConfig) (Peer, error) {
	return nil, errors.New("verif: dialing disabled")
}
func (t *verifC17Transport) Cleanup(p Peer) { _ = p.CloseConn() }

// VerifC17NewSwitch returns a real Switch over the no-op transport.
func VerifC17NewSwitch(cfg *config.P2PConfig, self NetAddress) *Switch {
	return NewSwitch(cfg, &verifC17Transport{addr: self})
}
