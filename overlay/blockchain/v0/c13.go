//go:build verif

package v0

import "time"

// Export shim for the /verif block-sync check (C13). Re-exports only.

// VerifC13MaxPeerHeight is BlockPool.MaxPeerHeight() of the reactor's pool: the height the pool believes the best
// connected peer to have (IsCaughtUp compares the pool height with it).
func (bcR *BlockchainReactor) VerifC13MaxPeerHeight() int64 { return bcR.pool.MaxPeerHeight() }

// VerifC13PoolHeight is the pool's next height to sync.
func (bcR *BlockchainReactor) VerifC13PoolHeight() int64 {
	h, _, _ := bcR.pool.GetStatus()
	return h
}

// VerifC13SetPeerTimeout sets the pool's peerTimeout ("not const so we can override with tests" - the package's own
// tests shorten it the same way). Call it before any pool exists.
func VerifC13SetPeerTimeout(d time.Duration) { peerTimeout = d }
