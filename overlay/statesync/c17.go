//go:build verif

package statesync

import (
	sm "github.com/tendermint/tendermint/state"
	"github.com/tendermint/tendermint/types"
)

// Re-exports for the C17 harness. Reactor.Sync creates the syncer, sleeps for the discovery time (>= 5 s) while peers
// answer with snapshots, and then calls syncer.SyncAny. The harness needs the same two halves without the 5 s of
// wall clock in between: VerifC17BeginSync is the first statement group of Reactor.Sync, VerifC17FinishSync the rest
// (with discoveryTime 0). Nothing is re-implemented.

func (r *Reactor) VerifC17BeginSync(stateProvider StateProvider) {
	r.mtx.Lock()
	r.syncer = newSyncer(r.cfg, r.Logger, r.conn, r.connQuery, stateProvider, r.tempDir)
	r.mtx.Unlock()
}

func (r *Reactor) VerifC17FinishSync() (sm.State, *types.Commit, error) {
	state, commit, err := r.syncer.SyncAny(0, func() {})
	r.mtx.Lock()
	r.syncer = nil
	r.mtx.Unlock()
	return state, commit, err
}

// VerifC17SnapshotCount is the number of snapshots the syncer has pooled (0 when no sync is in progress).
func (r *Reactor) VerifC17SnapshotCount() int {
	r.mtx.RLock()
	defer r.mtx.RUnlock()
	if r.syncer == nil {
		return 0
	}
	return len(r.syncer.snapshots.Ranked())
}
