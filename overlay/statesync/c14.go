//go:build verif

package statesync

import (
	"sort"

	"github.com/tendermint/tendermint/config"
	"github.com/tendermint/tendermint/libs/log"
	"github.com/tendermint/tendermint/proxy"
)

// Re-exports for the C14 harness. Nothing here re-implements logic under test: type aliases make the unexported
// types nameable from outside (their methods Add/Next/Discard/SyncAny/... are already exported), the functions
// forward to the unexported constructors, and two accessors expose private fields read-only.

type (
	VerifC14Syncer       = syncer
	VerifC14ChunkQueue   = chunkQueue
	VerifC14SnapshotPool = snapshotPool
	VerifC14Snapshot     = snapshot
	VerifC14Chunk        = chunk
)

const VerifC14RecentSnapshots = recentSnapshots

var (
	VerifC14ErrAbort          = errAbort
	VerifC14ErrRetrySnapshot  = errRetrySnapshot
	VerifC14ErrRejectSnapshot = errRejectSnapshot
	VerifC14ErrRejectFormat   = errRejectFormat
	VerifC14ErrRejectSender   = errRejectSender
	VerifC14ErrVerifyFailed   = errVerifyFailed
	VerifC14ErrTimeout        = errTimeout
	VerifC14ErrNoSnapshots    = errNoSnapshots
	VerifC14ErrDone           = errDone
)

func VerifC14NewSyncer(cfg config.StateSyncConfig, logger log.Logger, conn proxy.AppConnSnapshot,
	connQuery proxy.AppConnQuery, stateProvider StateProvider, tempDir string) *syncer {
	return newSyncer(cfg, logger, conn, connQuery, stateProvider, tempDir)
}

func VerifC14NewChunkQueue(s *snapshot, tempDir string) (*chunkQueue, error) {
	return newChunkQueue(s, tempDir)
}

func VerifC14NewSnapshotPool() *snapshotPool { return newSnapshotPool() }

// VerifC14Chunks returns the chunk queue of the restoration in progress (nil when there is none).
func (s *syncer) VerifC14Chunks() *chunkQueue {
	s.mtx.RLock()
	defer s.mtx.RUnlock()
	return s.chunks
}

// VerifC14Pool returns the syncer's snapshot pool.
func (s *syncer) VerifC14Pool() *snapshotPool { return s.snapshots }

// VerifC14TrustedAppHash reads the private field the light client fills in.
func (s *snapshot) VerifC14TrustedAppHash() []byte { return s.trustedAppHash }

// VerifC14Waiting lists the chunk indexes somebody is blocked on in WaitFor/Next (sorted). The harness uses it
// to learn that the restoring goroutine is parked waiting for a chunk, i.e. quiescent.
func (q *chunkQueue) VerifC14Waiting() []uint32 {
	q.Lock()
	defer q.Unlock()
	var out []uint32
	for idx, w := range q.waiters {
		if len(w) > 0 {
			out = append(out, idx)
		}
	}
	sort.Slice(out, func(i, j int) bool { return out[i] < out[j] })
	return out
}

// VerifC14Dir is the queue's scratch directory (to check that Close removes it).
func (q *chunkQueue) VerifC14Dir() string { return q.dir }
