//go:build verif

package consensus

import "github.com/tendermint/tendermint/p2p"

// Re-exports for the C17 harness. Reactor.AddPeer starts the three per-peer routines with a bare `go`; a panic in one
// of them kills the process. The harness starts the very same routines itself, under a recover that turns such a
// panic into a reported violation instead of the death of the test binary. Nothing is re-implemented.

func (conR *Reactor) VerifC17GossipDataRoutine(peer p2p.Peer, ps *PeerState)  { conR.gossipDataRoutine(peer, ps) }
func (conR *Reactor) VerifC17GossipVotesRoutine(peer p2p.Peer, ps *PeerState) { conR.gossipVotesRoutine(peer, ps) }
func (conR *Reactor) VerifC17QueryMaj23Routine(peer p2p.Peer, ps *PeerState)  { conR.queryMaj23Routine(peer, ps) }
func (conR *Reactor) VerifC17SendNewRoundStep(peer p2p.Peer)                   { conR.sendNewRoundStepMessage(peer) }
