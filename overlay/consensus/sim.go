//go:build verif

package consensus

// Export shim for the /verif single-threaded consensus simulator (C01-C03) and the process-node harness (C04, C05,
// C15). Re-exports only; no logic under test is re-implemented here.

import (
	"sync"

	"github.com/tendermint/tendermint/libs/log"
	"github.com/tendermint/tendermint/p2p"
	cstypes "github.com/tendermint/tendermint/consensus/types"
	sm "github.com/tendermint/tendermint/state"
)

// VerifTimeout is the unexported timeoutInfo (its fields are exported).
type VerifTimeout = timeoutInfo

// VerifMsgInfo is the unexported msgInfo.
type VerifMsgInfo = msgInfo

// VerifTicker is a TimeoutTicker that never fires by itself: it remembers the armed timeout with the same
// replacement rule as timeoutTicker.timeoutRoutine, and the harness decides when it fires.
type VerifTicker struct {
	mu     sync.Mutex  // with a started State, OnStart and the receive routine both schedule
	Cur    timeoutInfo // last accepted schedule request
	Armed  bool
	C      chan timeoutInfo // handed to receiveRoutine by Chan(); unbuffered
	Nsched int
}

// IsArmed / Current: lock-protected reads for harnesses that drive a STARTED State from another goroutine.
func (t *VerifTicker) IsArmed() bool {
	t.mu.Lock()
	defer t.mu.Unlock()
	return t.Armed
}

func (t *VerifTicker) Current() timeoutInfo {
	t.mu.Lock()
	defer t.mu.Unlock()
	return t.Cur
}

func NewVerifTicker() *VerifTicker { return &VerifTicker{C: make(chan timeoutInfo)} }

func (t *VerifTicker) Start() error             { return nil }
func (t *VerifTicker) Stop() error              { return nil }
func (t *VerifTicker) Reset() error             { return nil }
func (t *VerifTicker) SetLogger(log.Logger)     {}
func (t *VerifTicker) Chan() <-chan timeoutInfo { return t.C }

func (t *VerifTicker) ScheduleTimeout(newti timeoutInfo) {
	t.mu.Lock()
	defer t.mu.Unlock()
	ti := t.Cur
	t.Nsched++
	// same staleness rule as timeoutTicker.timeoutRoutine
	if newti.Height < ti.Height {
		return
	} else if newti.Height == ti.Height {
		if newti.Round < ti.Round {
			return
		} else if newti.Round == ti.Round {
			if ti.Step > 0 && newti.Step <= ti.Step {
				return
			}
		}
	}
	t.Cur = newti
	t.Armed = true
}

// Take returns the armed timeout and disarms the ticker (the timer "fired").
func (t *VerifTicker) Take() (timeoutInfo, bool) {
	t.mu.Lock()
	defer t.mu.Unlock()
	if !t.Armed {
		return timeoutInfo{}, false
	}
	t.Armed = false
	return t.Cur, true
}

// VerifHandleMsg feeds one message to the state machine exactly as receiveRoutine does after the WAL write.
func (cs *State) VerifHandleMsg(msg Message, peer p2p.ID) { cs.handleMsg(msgInfo{Msg: msg, PeerID: peer}) }

// VerifHandleTimeout feeds one timeout exactly as receiveRoutine does (rs = the round state before the call).
func (cs *State) VerifHandleTimeout(ti timeoutInfo) { cs.handleTimeout(ti, cs.RoundState) }

// VerifPopInternal takes one message the node sent to itself (proposal, part, vote), non-blocking.
func (cs *State) VerifPopInternal() (Message, bool) {
	select {
	case mi := <-cs.internalMsgQueue:
		return mi.Msg, true
	default:
		return nil, false
	}
}

// VerifDrainStats empties the statistics queue the reactor would read.
func (cs *State) VerifDrainStats() int {
	n := 0
	for {
		select {
		case <-cs.statsMsgQueue:
			n++
		default:
			return n
		}
	}
}

// VerifQueueLens reports the current queue lengths (peer, internal).
func (cs *State) VerifQueueLens() (int, int) { return len(cs.peerMsgQueue), len(cs.internalMsgQueue) }

// VerifPeerQueue gives the harness the send side of the peer message queue (procnode).
func (cs *State) VerifSendPeer(msg Message, peer p2p.ID) { cs.peerMsgQueue <- msgInfo{Msg: msg, PeerID: peer} }

// VerifRS exposes the live round state (single-threaded harness only).
func (cs *State) VerifRS() *cstypes.RoundState { return &cs.RoundState }

// VerifSMState exposes the sm.State the node works from.
func (cs *State) VerifSMState() sm.State { return cs.state }

// VerifScheduleRound0 arms the new-height timeout as OnStart does.
func (cs *State) VerifScheduleRound0() { cs.scheduleRound0(cs.GetRoundState()) }

// VerifSetWAL / VerifWAL swap the WAL (crash-injecting wrappers).
func (cs *State) VerifSetWAL(w WAL) { cs.wal = w }
func (cs *State) VerifWAL() WAL     { return cs.wal }

// VerifDone is closed when receiveRoutine has exited.
func (cs *State) VerifDone() <-chan struct{} { return cs.done }
