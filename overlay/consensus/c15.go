//go:build verif

package consensus

import "io"

// Export shim for the /verif WAL check (C15, package c15). Re-exports only.

// VerifC15RepairWalFile is the repair step State.OnStart runs when catchupReplay reports a DataCorruptionError
// (copy of the decodable prefix of src to dst).
func VerifC15RepairWalFile(src, dst string) error { return repairWalFile(src, dst) }

// VerifC15MaxMsgSizeBytes is the framing limit shared by WALEncoder and WALDecoder.
const VerifC15MaxMsgSizeBytes = maxMsgSizeBytes

// verifC15Writer sits between the WAL's encoder and its autofile group and forwards every Write unchanged; after the
// group's Write has returned (its mutex is free again - the point where the group's ticker goroutine may run
// checkHeadSizeLimit / RotateFile) it calls the harness.
type verifC15Writer struct {
	wr    io.Writer
	after func()
}

func (w verifC15Writer) Write(p []byte) (int, error) {
	n, err := w.wr.Write(p)
	w.after()
	return n, err
}

// VerifC15AfterEachGroupWrite interposes verifC15Writer (call before Start).
func (wal *BaseWAL) VerifC15AfterEachGroupWrite(after func()) {
	wal.enc = NewWALEncoder(verifC15Writer{wr: wal.group, after: after})
}

// VerifC15StartWithoutWALCatchup puts the state in the condition Reactor.SwitchToConsensus(state, skipWAL=true)
// leaves it in after block sync / state sync delivered blocks: OnStart will not run the WAL catch-up.
func (cs *State) VerifC15StartWithoutWALCatchup() { cs.doWALCatchup = false }
