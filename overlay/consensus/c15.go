//go:build verif

package consensus

// Export shim for the /verif WAL check (C15, package c15). Re-exports only.

// VerifC15RepairWalFile is the repair step State.OnStart runs when catchupReplay reports a DataCorruptionError
// (copy of the decodable prefix of src to dst).
func VerifC15RepairWalFile(src, dst string) error { return repairWalFile(src, dst) }

// VerifC15MaxMsgSizeBytes is the framing limit shared by WALEncoder and WALDecoder.
const VerifC15MaxMsgSizeBytes = maxMsgSizeBytes
