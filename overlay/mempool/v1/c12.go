//go:build verif

package v1

import (
	"time"

	"github.com/tendermint/tendermint/types"
)

// VerifC12CacheHas re-exports TxCache.Has of the mempool's cache (documented as "not an access").
func (txmp *TxMempool) VerifC12CacheHas(tx types.Tx) bool { return txmp.cache.Has(tx) }

// VerifC12ListTxs walks the gossip list front to back and returns the raw transactions in list order together
// with the wall-clock arrival stamps the mempool recorded for them.
func (txmp *TxMempool) VerifC12ListTxs() ([]types.Tx, []time.Time) {
	txmp.mtx.RLock()
	defer txmp.mtx.RUnlock()
	var out []types.Tx
	var ts []time.Time
	for e := txmp.txs.Front(); e != nil; e = e.Next() {
		w := e.Value.(*WrappedTx)
		out = append(out, w.tx)
		ts = append(ts, w.timestamp)
	}
	return out, ts
}
