//go:build verif

package v0

// VerifC17ActivePeerIDs is the number of mempool peer ids currently reserved (including id 0, which is reserved for the
// node's own RPC-submitted transactions). Read-only re-export for the C17 harness.
func (memR *Reactor) VerifC17ActivePeerIDs() int {
	memR.ids.mtx.RLock()
	defer memR.ids.mtx.RUnlock()
	return len(memR.ids.activeIDs)
}
