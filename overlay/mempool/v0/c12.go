//go:build verif

package v0

import (
	"github.com/tendermint/tendermint/types"
)

// VerifC12CacheHas re-exports TxCache.Has of the mempool's cache (documented as "not an access").
func (mem *CListMempool) VerifC12CacheHas(tx types.Tx) bool { return mem.cache.Has(tx) }

// VerifC12ListTxs walks the gossip list front to back and returns the raw transactions in list order.
func (mem *CListMempool) VerifC12ListTxs() []types.Tx {
	var out []types.Tx
	for e := mem.txs.Front(); e != nil; e = e.Next() {
		out = append(out, e.Value.(*mempoolTx).tx)
	}
	return out
}
