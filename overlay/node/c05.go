//go:build verif

package node

// Export shim for the /verif C05 node-level harness (harness/c05/node_test.go). Re-exports only.

// VerifC05CloseTransport closes the p2p listener of a node object the harness abandons after an injected crash
// that interrupted Node.Start (Node.Stop would wait for a consensus routine that was never started).
func (n *Node) VerifC05CloseTransport() error { return n.transport.Close() }
