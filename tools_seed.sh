#!/bin/bash
# usage: tools_seed.sh <PROP> <variant> <outdir> <demo-file> <demo-dest-relative-path> <go test pkg> <run regex> [tier]
# Confirms a seeded change (demo passes on HEAD, fails with the patch), runs the property's check against it, and
# files it under /verif/seeded/<PROP>-<variant>/.
set -u
PROP=$1; VAR=$2; OUT=$3; DEMO=$4; DEST=$5; PKG=$6; RUN=$7; TIER=${8:-quick}
export GOFLAGS=-mod=mod GOPROXY=off GOSUMDB=off GOTOOLCHAIN=local
WT=/tmp/sv-$PROP-$VAR
git -C /repo worktree remove --force $WT >/dev/null 2>&1
git -C /repo worktree add --detach $WT HEAD >/dev/null 2>&1 || { echo "worktree failed"; exit 2; }
cp $OUT/$DEMO $WT/$DEST
(cd $WT && go test -count=1 -run "$RUN" $PKG > /tmp/sv-$PROP-$VAR.clean.log 2>&1); CLEAN=$?
(cd $WT && { git apply $OUT/patch.diff || { echo "plain apply failed, trying --3way"; git apply --3way $OUT/patch.diff && git reset -q; }; }) || { echo "patch does not apply"; git -C /repo worktree remove --force $WT; exit 3; }
(cd $WT && go build ./... > /tmp/sv-$PROP-$VAR.build.log 2>&1); BUILD=$?
(cd $WT && go test -count=1 -run "$RUN" $PKG > /tmp/sv-$PROP-$VAR.patched.log 2>&1); PATCHED=$?
echo "demo on HEAD rc=$CLEAN (want 0); build rc=$BUILD; demo with patch rc=$PATCHED (want !=0)"
rm -f $WT/$DEST
T0=$(date +%s)
env VERIF_REPO=$WT VERIF_OUT=/tmp/svout-$PROP-$VAR ${SCALE:+VERIF_SCALE=$SCALE} /verif/check $PROP --tier $TIER > /tmp/sv-$PROP-$VAR.check.log 2>&1; CHECK=$?
T1=$(date +%s)
grep -E "VIOLATION|INCONCLUSIVE|tier=" /tmp/sv-$PROP-$VAR.check.log | head -4
echo "check rc=$CHECK ($TIER, $((T1-T0))s)"
D=/verif/seeded/$PROP-$VAR
mkdir -p $D
cp $OUT/patch.diff $D/patch.diff; cp $OUT/$DEMO $D/; [ -f $OUT/notes.md ] && cp $OUT/notes.md $D/notes.md
python3 - "$D" "$PROP" "$VAR" "$DEST" "$PKG" "$RUN" "$CLEAN" "$PATCHED" "$BUILD" "$CHECK" "$TIER" "$((T1-T0))" <<'PY'
import json,sys,os,subprocess
d,prop,var,dest,pkg,run,clean,patched,build,check,tier,secs=sys.argv[1:]
head=subprocess.check_output(['git','-C','/repo','rev-parse','--short','HEAD']).decode().strip()
mp=os.path.join(d,'meta.json')
m=json.load(open(mp)) if os.path.exists(mp) else {}
m.update({"property":prop,"variant":var,"base_commit":head,"demo_file":os.path.basename(dest),"demo_placement":dest,
 "demo_cmd":"go test -count=1 -run '%s' %s"%(run,pkg),"demo_on_head_rc":int(clean),"demo_with_patch_rc":int(patched),"build_rc":int(build)})
m.setdefault("check_runs",[]).append({"head":head,"tier":tier,"rc":int(check),"detected":int(check)==1,"wall_s":int(secs),"cmd":"VERIF_REPO=<worktree with patch> ./check %s --tier %s"%(prop,tier)})
m["detected_by_check"]=any(r["detected"] for r in m["check_runs"])
json.dump(m,open(mp,'w'),indent=1)
PY
git -C /repo worktree remove --force $WT
ALT=alt-$(python3 -c "import hashlib,sys;print(hashlib.sha1(sys.argv[1].encode()).hexdigest()[:10])" $WT)
rm -rf /tmp/svout-$PROP-$VAR /verif/build/$ALT
