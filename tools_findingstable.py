#!/usr/bin/env python3
"""Regenerates the findings tables of DESIGN.md Appendix D (between the findings markers) from known_findings.json."""
import json, re
k = json.load(open('/verif/known_findings.json'))['findings']
cell = lambda s: (s or '').replace('|', '\\|').replace('\n', ' ')
def what(f):
    w = f.get('what') or f.get('description') or ''
    w = re.sub(r'^fixed: property=\S+ \S+ ', '', w)
    return cell(w)
fixed = sorted([f for f in k if f['status'] == 'fixed'], key=lambda f: f['property'])
known = sorted([f for f in k if f['status'] == 'known'], key=lambda f: f['property'])
out = '**Genuine defects repaired (%d `fix:` commits in /repo; each has a library-free `TestRegress…` in its harness package and a `fixed` entry in known_findings.json, which suppresses nothing).**\n\n' % len(fixed)
out += '| property | id | commit | what failed |\n|---|---|---|---|\n'
for f in fixed:
    out += '| %s | %s | %s | %s |\n' % (f['property'], f['id'], f.get('commit'), what(f))
out += '\n**Known findings (genuine, not repaired — no small safe repair; excluded by signature, counted in the evidence, reported as `KNOWN-FINDING:` lines).**\n\n'
out += '| property | id | what fails |\n|---|---|---|\n'
for f in known:
    out += '| %s | %s | %s |\n' % (f['property'], f['id'], what(f))
p = '/verif/DESIGN.md'; s = open(p).read()
b, e = '<!-- findings-begin -->\n', '<!-- findings-end -->\n'
s = s[:s.index(b) + len(b)] + out + s[s.index(e):]
open(p, 'w').write(s)
print(len(fixed), 'fixed', len(known), 'known')
